//! C23: concurrent reads see the same results as sequential reads. Fixed databases
//! behind Arc<RwLock<_>>, a sequential baseline of read queries and read
//! transactions, then many reader threads comparing every result with the
//! baseline. The hooked counters show that both the locked and the fallback-handle
//! read paths of FileStorage were exercised, and the read gap widens the window
//! between seek and read.

use crate::hist_eng::AnyDb;
use crate::hist_eng::exec_step;
use crate::hist_eng::open;
use crate::with_db;
use agdb::CountComparison;
use agdb::DbValue;
use agdb::QueryBuilder;
use agdb::QueryResult;
use serde_json::json;
use std::sync::Arc;
use std::sync::RwLock;
use std::sync::atomic::AtomicU64;
use std::sync::atomic::Ordering;
use vcore::Args;
use vcore::genq::Gen;
use vcore::genq::GenCfg;
use vcore::model::Model;
use vcore::panicmon;
use vcore::report::Report;
use vcore::rng::Rng;
use vcore::rng::derive;
use vcore::rng::tag;
use vcore::workers::CaseEngine;

pub struct C23;

#[derive(Clone)]
enum Read {
    Select(agdb::SelectValuesQuery),
    Search(agdb::SearchQuery),
    Keys(agdb::SelectKeysQuery),
    KeyCount(agdb::SelectKeyCountQuery),
    EdgeCount(agdb::SelectEdgeCountQuery),
    Aliases(agdb::SelectAllAliasesQuery),
    Indexes(agdb::SelectIndexesQuery),
    NodeCount(agdb::SelectNodeCountQuery),
    /// read transaction: the queries run under one `transaction` closure
    Tx(Vec<Read>),
}

fn run_read<S: agdb::StorageData>(db: &agdb::DbImpl<S>, r: &Read) -> Result<Vec<QueryResult>, String> {
    let one = |x: Result<QueryResult, agdb::DbError>| x.map(|r| vec![r]).map_err(|e| e.description);
    match r {
        Read::Select(q) => one(db.exec(q)),
        Read::Search(q) => one(db.exec(q)),
        Read::Keys(q) => one(db.exec(q)),
        Read::KeyCount(q) => one(db.exec(q)),
        Read::EdgeCount(q) => one(db.exec(q)),
        Read::Aliases(q) => one(db.exec(q)),
        Read::Indexes(q) => one(db.exec(q)),
        Read::NodeCount(q) => one(db.exec(q)),
        Read::Tx(qs) => db.transaction(|t| -> Result<Vec<QueryResult>, String> {
            let mut out = vec![];
            for q in qs {
                let r = match q {
                    Read::Select(q) => t.exec(q),
                    Read::Search(q) => t.exec(q),
                    Read::Keys(q) => t.exec(q),
                    Read::KeyCount(q) => t.exec(q),
                    Read::EdgeCount(q) => t.exec(q),
                    Read::Aliases(q) => t.exec(q),
                    Read::Indexes(q) => t.exec(q),
                    Read::NodeCount(q) => t.exec(q),
                    Read::Tx(_) => continue,
                };
                out.push(r.map_err(|e| e.description)?);
            }
            Ok(out)
        }),
    }
}

fn reads(m: &Model, rng: &mut Rng) -> Vec<Read> {
    let mut v = vec![];
    let ids: Vec<i64> = m.elems.keys().copied().collect();
    let nodes = m.nodes();
    for chunk in ids.chunks(7) {
        v.push(Read::Select(QueryBuilder::select().ids(chunk.to_vec()).query()));
        v.push(Read::Keys(QueryBuilder::select().keys().ids(chunk.to_vec()).query()));
        v.push(Read::KeyCount(QueryBuilder::select().key_count().ids(chunk.to_vec()).query()));
    }
    for n in &nodes {
        v.push(Read::Search(QueryBuilder::search().from(*n).query()));
        v.push(Read::Search(QueryBuilder::search().depth_first().to(*n).query()));
        v.push(Read::Search(QueryBuilder::search().from(*n).where_().distance(CountComparison::LessThan(3)).query()));
        v.push(Read::Select(QueryBuilder::select().search().from(*n).limit(5).query()));
        v.push(Read::EdgeCount(QueryBuilder::select().edge_count().ids(*n).query()));
    }
    v.push(Read::Search(QueryBuilder::search().elements().query()));
    v.push(Read::Aliases(QueryBuilder::select().aliases().query()));
    v.push(Read::Indexes(QueryBuilder::select().indexes().query()));
    v.push(Read::NodeCount(QueryBuilder::select().node_count().query()));
    for k in &m.indexes {
        for val in vcore::genq::value_pool().into_iter().take(8) {
            v.push(Read::Search(QueryBuilder::search().index(k.clone()).value(val).query()));
        }
    }
    v.push(Read::Select(QueryBuilder::select().values(vec![DbValue::from("k0")]).search().elements().query()));
    // read transactions of several queries
    let n = v.len();
    for _ in 0..10 {
        let qs: Vec<Read> = (0..2 + rng.usize(3)).map(|_| v[rng.usize(n)].clone()).collect();
        v.push(Read::Tx(qs));
    }
    v
}

impl CaseEngine for C23 {
    fn property(&self) -> &'static str {
        "C23"
    }
    fn rule(&self) -> String {
        "fixed databases (generated histories with long string and vector values so that one read spans several storage calls) opened as \
         DbFile, DbAny::new_file and Db behind Arc<RwLock<_>>; sequential baseline of ~100-300 read queries and read transactions; then 16 \
         (thorough 48) threads each take the read lock and run random reads in tight loops, with the read gap hook yielding between seek \
         and read; every result must equal the baseline. In every other case one more thread holds the read lock and takes backups and copies \
         (`&self` operations) for as long as the readers run; these must succeed and the last backup must answer every baseline read \
         identically. The hooked counters must show both locked and fallback-handle reads for the \
         file-only variants. evaluations = concurrent reads compared; distinct = distinct (variant, read kind) pairs x rounds"
            .into()
    }
    fn cases(&self, args: &Args) -> usize {
        args.u64("n", if args.thorough() { 60 } else { 9 }) as usize
    }
    fn case_timeout_s(&self, _args: &Args) -> u64 {
        300
    }
    fn hang_cpu_seconds(&self) -> f64 {
        // many reader threads burn CPU by design; only the wall-clock watchdog applies
        f64::INFINITY
    }
    fn run_case(&self, args: &Args, case: usize, rep: &mut Report, _p: &dyn Fn(&str)) {
        let seed = derive(args.u64("seed", 1), &[tag("C23"), case as u64]);
        let scratch = args.str("scratch", "/verif/scratch/c23");
        let dir = vcore::scratch_dir(&scratch, &format!("c{case}"));
        let kind = ["file", "any_file", "mapped"][case % 3];
        let path = format!("{dir}/db.agdb");
        let threads = args.u64("threads", if args.thorough() { 48 } else { 16 }) as usize;
        let per_thread = args.u64("reads", if args.thorough() { 20_000 } else { 4_000 }) as usize;
        // build
        let built = panicmon::catch(|| -> Option<(AnyDb, Model)> {
            let mut any = open(kind, &path).ok()?;
            let mut model = Model::default();
            let mut cfg = GenCfg::default();
            cfg.w = [12, 3, 18, 4, 6, 26, 3, 0, 4, 1, 2];
            cfg.hostile_pct = 0;
            cfg.max_nodes = 14;
            let mut g = Gen::new(seed, cfg);
            for _ in 0..70 {
                let q = g.next(&model);
                let v = with_db!(&mut any, db, exec_step(db, &mut model, &q).1);
                if v.is_some() {
                    return None;
                }
            }
            Some((any, model))
        });
        let Ok(Some((any, model))) = built else {
            rep.count("databases_skipped_other_property");
            return;
        };
        let mut rng = Rng::new(seed ^ 7);
        let list = reads(&model, &mut rng);
        // sequential baseline
        let baseline: Vec<Result<Vec<QueryResult>, String>> = list.iter().map(|r| with_db!(&any, db, run_read(db, r))).collect();
        rep.max("read_queries_in_baseline", list.len() as i64);
        let locked0 = agdb::verif::READS_LOCKED.load(Ordering::SeqCst);
        let fallback0 = agdb::verif::READS_FALLBACK.load(Ordering::SeqCst);
        agdb::verif::READ_GAP_YIELDS.store(1 + (case as u64 % 3), Ordering::SeqCst);
        let shared = Arc::new(RwLock::new(any));
        let list = Arc::new(list);
        let baseline = Arc::new(baseline);
        let mismatches = Arc::new(AtomicU64::new(0));
        let first: Arc<std::sync::Mutex<Option<(String, String)>>> = Arc::new(std::sync::Mutex::new(None));
        let mut handles = vec![];
        for t in 0..threads {
            let shared = shared.clone();
            let list = list.clone();
            let baseline = baseline.clone();
            let mismatches = mismatches.clone();
            let first = first.clone();
            handles.push(std::thread::spawn(move || {
                let mut rng = Rng::new(seed ^ (t as u64 * 7919));
                let mut done = 0u64;
                for _ in 0..per_thread {
                    let i = rng.usize(list.len());
                    let got = panicmon::catch(|| {
                        let guard = shared.read().unwrap();
                        with_db!(&*guard, db, run_read(db, &list[i]))
                    });
                    done += 1;
                    let bad = match &got {
                        Ok(g) => *g != baseline[i],
                        Err(_) => true,
                    };
                    if bad {
                        mismatches.fetch_add(1, Ordering::SeqCst);
                        let mut f = first.lock().unwrap();
                        if f.is_none() {
                            let class = match &got {
                                Err(p) => p.signature(),
                                Ok(Err(_)) if baseline[i].is_ok() => "read_failed_under_concurrency".to_string(),
                                _ => "result_differs_from_sequential".to_string(),
                            };
                            let detail = format!(
                                "thread {t}, read #{i}: got {} expected {}",
                                match &got {
                                    Ok(g) => format!("{g:?}").chars().take(500).collect::<String>(),
                                    Err(p) => format!("panic {}", p.message),
                                },
                                format!("{:?}", baseline[i]).chars().take(500).collect::<String>()
                            );
                            *f = Some((class, detail));
                        }
                        if mismatches.load(Ordering::SeqCst) > 50 {
                            break;
                        }
                    }
                }
                done
            }));
        }
        // every other case: one more thread holds the read lock and takes backups and copies
        // (`&self` operations, legal next to readers) for as long as the readers run
        let stop = Arc::new(std::sync::atomic::AtomicBool::new(false));
        let bak = format!("{dir}/bak.agdb");
        let copier = if case % 2 == 1 {
            let shared = shared.clone();
            let stop = stop.clone();
            let bak = bak.clone();
            let cpy = format!("{dir}/copy.agdb");
            Some(std::thread::spawn(move || -> (u64, u64, Option<String>) {
                let (mut backups, mut copies, mut err) = (0u64, 0u64, None);
                while !stop.load(Ordering::SeqCst) {
                    let r = panicmon::catch(|| {
                        let guard = shared.read().unwrap();
                        let b = with_db!(&*guard, db, db.backup(&bak).map_err(|e| e.description));
                        let c = with_db!(&*guard, db, db.copy(&cpy).map(|_| ()).map_err(|e| e.description));
                        (b, c)
                    });
                    crate::hist_eng::cleanup(&cpy);
                    match r {
                        Ok((b, c)) => {
                            backups += b.is_ok() as u64;
                            copies += c.is_ok() as u64;
                            if let Some(e) = b.err().or(c.err()) {
                                err.get_or_insert(e);
                            }
                        }
                        Err(p) => {
                            err.get_or_insert(format!("panic {}", p.message));
                        }
                    }
                    std::thread::yield_now();
                }
                (backups, copies, err)
            }))
        } else {
            None
        };
        let mut total = 0;
        for h in handles {
            total += h.join().unwrap_or(0);
        }
        stop.store(true, Ordering::SeqCst);
        if let Some(h) = copier {
            let (backups, copies, err) = h.join().unwrap_or((0, 0, Some("copier thread died".into())));
            rep.add("backups_taken_under_the_read_lock_next_to_readers", backups as i64);
            rep.add("copies_taken_under_the_read_lock_next_to_readers", copies as i64);
            rep.eval();
            let ctx = json!({"engine":"c23","case":case,"seed":args.u64("seed",1),"tier":args.str("tier","quick"),"threads":threads});
            if let Some(e) = err {
                rep.violation(&format!("C23:backup_or_copy_failed_next_to_readers:{kind}"), &format!("[{kind}] {e}"), ctx.clone());
            } else if backups > 0 {
                // the last backup, taken while readers were running, must answer every read like the original
                let r = panicmon::catch(|| -> Result<usize, String> {
                    let b = open(kind, &bak).map_err(|e| e.description)?;
                    let mut diff = 0;
                    for (i, q) in list.iter().enumerate() {
                        if with_db!(&b, db, run_read(db, q)) != baseline[i] {
                            diff += 1;
                        }
                    }
                    Ok(diff)
                });
                match r {
                    Ok(Ok(0)) => {}
                    Ok(Ok(n)) => rep.violation(&format!("C23:backup_taken_next_to_readers_differs:{kind}"), &format!("[{kind}] {n} of {} reads answer differently on the backup", list.len()), ctx.clone()),
                    Ok(Err(e)) => rep.violation(&format!("C23:backup_taken_next_to_readers_unreadable:{kind}"), &format!("[{kind}] {e}"), ctx.clone()),
                    Err(p) => rep.violation(&format!("C23:{}:{kind}", p.signature()), &format!("[{kind}] opening the backup: {}", p.message), ctx.clone()),
                }
            }
            crate::hist_eng::cleanup(&bak);
        }
        agdb::verif::READ_GAP_YIELDS.store(0, Ordering::SeqCst);
        rep.evaluations += total;
        let locked = agdb::verif::READS_LOCKED.load(Ordering::SeqCst) - locked0;
        let fallback = agdb::verif::READS_FALLBACK.load(Ordering::SeqCst) - fallback0;
        rep.add(&format!("file_reads_locked_{kind}"), locked as i64);
        rep.add(&format!("file_reads_fallback_handle_{kind}"), fallback as i64);
        rep.distinct_hash(tag(&format!("{kind}|{}", case / 3)));
        for (i, r) in list.iter().enumerate() {
            let k = match r {
                Read::Select(_) => "select",
                Read::Search(_) => "search",
                Read::Keys(_) => "keys",
                Read::KeyCount(_) => "key_count",
                Read::EdgeCount(_) => "edge_count",
                Read::Aliases(_) => "aliases",
                Read::Indexes(_) => "indexes",
                Read::NodeCount(_) => "node_count",
                Read::Tx(_) => "read_transaction",
            };
            rep.distinct_hash(tag(&format!("{kind}|{k}|{}", i % 4)));
        }
        let m = mismatches.load(Ordering::SeqCst);
        if m > 0 {
            let (class, detail) = first.lock().unwrap().clone().unwrap_or_default();
            rep.violation(
                &format!("C23:{class}:{kind}"),
                &format!("[{kind}] {m} of {total} concurrent reads differ; first: {detail}"),
                json!({"engine":"c23","case":case,"seed":args.u64("seed",1),"tier":args.str("tier","quick"),"threads":threads}),
            );
        }
        if case == 0 {
            rep.sample(|| json!({"variant": kind, "threads": threads, "reads_per_thread": per_thread, "baseline_queries": list.len(), "locked_reads": locked, "fallback_reads": fallback}));
        }
        drop(shared);
        let _ = std::fs::remove_dir_all(&dir);
    }
    fn finish(&self, args: &Args, rep: &mut Report) {
        for k in ["file", "any_file"] {
            rep.require(&format!("file_reads_locked_{k}"), 1000);
            rep.require(&format!("file_reads_fallback_handle_{k}"), 1000);
        }
        rep.require("backups_taken_under_the_read_lock_next_to_readers", 3);
        let _ = std::fs::remove_dir_all(args.str("scratch", "/verif/scratch/c23"));
    }
}
