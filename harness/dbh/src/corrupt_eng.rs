//! C07: opening or reading a damaged database file never crashes the process.
//! Valid file pairs (data + write-ahead log, including mid-transaction states taken
//! from recorded histories) are mutated structure-aware and opened with Db, DbFile
//! and DbMemory in worker processes under the panic monitor and the allocation cap.

use crate::hist_eng::AnyDb;
use crate::hist_eng::open;
use crate::hist_eng::probe;
use crate::with_db;
use serde_json::json;
use std::collections::BTreeSet;
use vcore::Args;
use vcore::crash;
use vcore::crash::Images;
use vcore::dump;
use vcore::panicmon;
use vcore::report::Report;
use vcore::report::hex;
use vcore::rng::Rng;
use vcore::rng::derive;
use vcore::rng::tag;
use vcore::workers::CaseEngine;

pub struct C07;

// the last four are small negative numbers when a length is (mis)used as a signed offset
const EXTREMES: [u64; 18] = [0, 1, 2, 3, 7, 8, 15, 16, 17, 1 << 31, 1 << 40, (1 << 63) - 1, 1 << 63, u64::MAX, u64::MAX - 7, u64::MAX - 15, u64::MAX - 23, u64::MAX - 31];

/// offsets of the record headers of a well-formed data file
fn headers(data: &[u8]) -> Vec<usize> {
    let mut v = vec![];
    let mut pos = 0usize;
    while pos + 16 <= data.len() {
        v.push(pos);
        let size = u64::from_le_bytes(data[pos + 8..pos + 16].try_into().unwrap()) as usize;
        match pos.checked_add(16).and_then(|p| p.checked_add(size)) {
            Some(n) if n <= data.len() => pos = n,
            _ => break,
        }
    }
    v
}

fn put(b: &mut [u8], at: usize, x: u64) {
    if at + 8 <= b.len() {
        b[at..at + 8].copy_from_slice(&x.to_le_bytes());
    }
}

/// returns (mutant, data operator name, wal operator name)
fn mutate(rng: &mut Rng, base: &Images) -> (Images, &'static str, &'static str) {
    let mut img = base.clone();
    let hs = headers(&img.data);
    let near = |rng: &mut Rng, len: u64| -> u64 {
        match rng.below(4) {
            0 => EXTREMES[rng.usize(EXTREMES.len())],
            1 => len.wrapping_sub(rng.below(3)),
            2 => len + rng.below(20),
            _ => rng.below(len + 2),
        }
    };
    let dlen = img.data.len() as u64;
    let dop = match rng.below(12) {
        0 => {
            let n = rng.usize(img.data.len() + 1);
            img.data.truncate(n);
            "truncate"
        }
        1 => {
            if !img.data.is_empty() {
                let i = rng.usize(img.data.len());
                img.data[i] ^= 1 << rng.below(8);
            }
            "bit_flip"
        }
        2 | 3 => {
            if !hs.is_empty() {
                let h = hs[rng.usize(hs.len())];
                let x = near(rng, dlen);
                put(&mut img.data, h, x);
            }
            "record_index"
        }
        4 | 5 => {
            if !hs.is_empty() {
                let h = hs[rng.usize(hs.len())];
                let x = near(rng, dlen);
                put(&mut img.data, h + 8, x);
            }
            "record_size"
        }
        6 => {
            // any aligned 8-byte field inside a record's value: collection lengths, indexes, type tags
            if img.data.len() >= 32 {
                let at = 16 + 8 * rng.usize((img.data.len() - 24) / 8);
                let x = near(rng, dlen);
                put(&mut img.data, at, x);
            }
            "value_field"
        }
        7 => {
            if !img.data.is_empty() {
                let i = rng.usize(img.data.len());
                img.data[i] = [0u8, 1, 9, 10, 15, 16, 17, 127, 128, 255][rng.usize(10)];
            }
            "byte_extreme"
        }
        8 => {
            let n = rng.usize(200);
            img.data = rng.bytes(n);
            "random_file"
        }
        9 => {
            // duplicate a record
            if hs.len() > 1 {
                let i = rng.usize(hs.len() - 1);
                let rec = img.data[hs[i]..hs[i + 1]].to_vec();
                img.data.extend(rec);
            }
            "duplicate_record"
        }
        10 => {
            let n = rng.usize(64);
            let extra = rng.bytes(n);
            let at = rng.usize(img.data.len() + 1);
            for (k, x) in extra.into_iter().enumerate() {
                img.data.insert(at + k, x);
            }
            "splice"
        }
        _ => "data_untouched",
    };
    let wop = match rng.below(8) {
        0 => {
            img.wal.clear();
            "wal_absent"
        }
        1 => {
            let n = rng.usize(img.wal.len() + 1);
            img.wal.truncate(n);
            "wal_torn"
        }
        2 => {
            let n = rng.usize(80);
            img.wal = rng.bytes(n);
            "wal_garbage"
        }
        3 => {
            // a record whose length field is huge
            let mut w = vec![];
            w.extend(rng.below(dlen + 10).to_le_bytes());
            w.extend(EXTREMES[rng.usize(EXTREMES.len())].to_le_bytes());
            let n = rng.usize(40);
            w.extend(rng.bytes(n));
            if rng.chance(1, 2) {
                img.wal.extend(w);
            } else {
                img.wal = w;
            }
            "wal_huge_length"
        }
        4 => {
            // a well-formed record pointing anywhere
            let mut w = vec![];
            w.extend(near(rng, dlen).to_le_bytes());
            let n = rng.usize(24);
            w.extend((n as u64).to_le_bytes());
            w.extend(rng.bytes(n));
            img.wal.extend(w);
            "wal_record_anywhere"
        }
        5 => {
            if img.wal.len() >= 16 {
                let at = 8 * rng.usize(img.wal.len() / 8 - 1);
                let x = near(rng, dlen);
                put(&mut img.wal, at, x);
            }
            "wal_field"
        }
        _ => "wal_untouched",
    };
    (img, dop, wop)
}

impl CaseEngine for C07 {
    fn property(&self) -> &'static str {
        "C07"
    }
    fn rule(&self) -> String {
        "valid data-file / write-ahead-log pairs (closed databases and mid-transaction states taken from recorded histories) mutated \
         structure-aware (truncation anywhere, bit flips, record index and size fields and in-value 8-byte fields set to extremes and \
         near-length values, tag bytes, duplicated records, splices, random files) x log variants (absent, torn, garbage, huge length, \
         well-formed record anywhere, field overwrite); each mutant is opened with Db, DbFile and DbMemory and, when it opens, read \
         completely (canonical dump) in a worker process under the panic monitor and an allocation cap of 64 MiB (files are a few KiB): \
         no panic, no abort, no request above the cap; Ok or Err are both fine. evaluations = (mutant, variant) opens; distinct = \
         distinct (data operator, log operator, variant, outcome) tuples"
            .into()
    }
    fn cases(&self, args: &Args) -> usize {
        args.u64("n", if args.thorough() { 4000 } else { 160 }) as usize
    }
    fn alloc_cap(&self) -> usize {
        64 << 20
    }
    fn hang_cpu_seconds(&self) -> f64 {
        // a progress line is emitted per mutant and variant; a mutant takes milliseconds of CPU
        12.0
    }
    fn file_size_limit(&self) -> Option<u64> {
        // write-ahead-log recovery of a damaged log can extend a data file to terabytes (KF-C07-2), and the code then
        // walks / copies it, really allocating tens of GB within seconds: no file of a worker may exceed 1 GiB
        // (bigger requests fail with EFBIG, which the code under test reports as an error)
        Some(1 << 30)
    }
    fn max_worker_deaths(&self) -> u64 {
        // aborts on allocation requests above the cap are open known findings here (KF-C07-1..3): a death costs a
        // respawn, not a timeout
        100_000
    }
    fn max_stuck_cases(&self) -> u64 {
        // mutants that make a *read* of an opened database spin (inconclusive here) are common on the unchanged tree:
        // they must not end the exploration of the other mutants
        100_000
    }
    fn hang_signature(&self, _progress: &str, frames: &[String]) -> Option<String> {
        // "opening ... either succeeds or returns an error": a process stuck while *opening* refutes it; stuck while
        // reading an opened database does not (for reads the property excludes panics only)
        if frames.is_empty() || frames.iter().any(|f| f.contains("vcore::dump::")) {
            return None;
        }
        // the outermost agdb frame: the call the harness made (FileStorage::new, DbImpl::with_data, Db::new, ...)
        let f = frames.iter().rev().find(|f| f.contains("agdb::"))?;
        let extended = _progress.contains("extended=true");
        Some(format!("open_does_not_return:{f}{}", if extended { ":after_recovery_extended_the_file_enormously" } else { "" }))
    }
    fn case_timeout_s(&self, _args: &Args) -> u64 {
        // "no progress line for N seconds": progress is emitted per mutant and variant, a mutant takes milliseconds
        90
    }
    fn run_case(&self, args: &Args, case: usize, rep: &mut Report, progress: &dyn Fn(&str)) {
        let seed = derive(args.u64("seed", 1), &[tag("C07"), case as u64]);
        let scratch = args.str("scratch", "/verif/scratch/c07");
        let dir = vcore::scratch_dir(&scratch, &format!("c{case}"));
        let mut rng = Rng::new(seed);
        // corpus: a recorded history gives the closed file and every intermediate file pair
        let path = format!("{dir}/base.agdb");
        let kind = if case % 2 == 0 { "file" } else { "mapped" };
        let rec = match panicmon::catch(|| crate::crash_eng::record(kind, &path, seed, 4 + (seed % 8) as usize, false)) {
            Ok(Ok(r)) => r,
            _ => {
                rep.inconclusive("could not build the valid corpus for this case");
                return;
            }
        };
        let final_img = crash::read_images(&path);
        let mut bases: Vec<Images> = vec![final_img];
        let mut img = rec.initial.clone();
        let picks: BTreeSet<usize> = (0..6).map(|_| rng.usize(rec.events.len().max(1))).collect();
        for (k, l) in rec.events.iter().enumerate() {
            if picks.contains(&k) {
                bases.push(img.clone());
            }
            crash::apply(&mut img, &l.ev);
        }
        rep.max("max_base_file_bytes", bases.iter().map(|b| b.data.len()).max().unwrap_or(0) as i64);
        let mutants = args.u64("mutants", if args.thorough() { 250 } else { 120 });
        let mdir = format!("{dir}/m");
        let _ = std::fs::create_dir_all(&mdir);
        let mut fired: BTreeSet<String> = BTreeSet::new();
        for i in 0..mutants {
            let base = &bases[rng.usize(bases.len())];
            let (m, dop, wop) = mutate(&mut rng, base);
            if !base.wal.is_empty() {
                rep.count("mutants_of_mid_transaction_states");
            }
            // pre-screen for non-termination on a step-budgeted storage: a mutant that makes a read spin is
            // C19's business (inconclusive here) and must not stall the worker until the watchdog fires
            {
                let p = crash::write_images(&mdir, "m.agdb", &m);
                progress(&format!("{dop}+{wop} variant=prescreen mutant={i}"));
                // (spins while opening, spins while reading, in-repo function issuing the storage calls)
                let spins = panicmon::catch(|| {
                    let ctl = vcore::wrap::Ctl::new();
                    ctl.budget.store(300_000, std::sync::atomic::Ordering::Relaxed);
                    let mut in_open = false;
                    let mut len_after_recovery = 0u64;
                    if let Ok(f) = <agdb::FileStorage as agdb::StorageData>::new(&p) {
                        len_after_recovery = <agdb::FileStorage as agdb::StorageData>::len(&f);
                        // for the hang classifier: did write-ahead-log recovery blow the file up?
                        progress(&format!("{dop}+{wop} variant=prescreen_recovered mutant={i} extended={}", len_after_recovery > 64 * (m.data.len() as u64 + 1024)));
                        let db = agdb::DbImpl::with_data(vcore::wrap::MonStorage::wrap(f, ctl.clone()));
                        in_open = ctl.budget_hit.load(std::sync::atomic::Ordering::Relaxed) > 0;
                        if let Ok(db) = db {
                            let _ = dump::dump(&db, &probe());
                        }
                    }
                    let frame = ctl.budget_hit_frame.lock().ok().and_then(|f| f.clone()).unwrap_or_default();
                    (in_open, ctl.budget_hit.load(std::sync::atomic::Ordering::Relaxed) > 0, frame, len_after_recovery)
                });
                vcore::alloccap::REFUSED.store(0, std::sync::atomic::Ordering::SeqCst);
                if let Ok((in_open, true, frame, len_after_recovery)) = &spins {
                    rep.count("mutants_skipped_step_budget_exceeded");
                    if *in_open {
                        // "opening ... either succeeds or returns an error": 300,000 storage calls for a file of a few KiB is neither
                        // write-ahead-log recovery may have blown the file up to a huge sparse size which is then walked record by record
                        let extended = *len_after_recovery > 64 * (m.data.len() as u64 + 1024);
                        let sig = format!("C07:open_exceeds_the_step_budget:{frame}{}", if extended { ":after_recovery_extended_the_file_enormously" } else { "" });
                        if fired.insert(sig.clone()) {
                            rep.violation(
                                &sig,
                                &format!("{dop}+{wop}: opening a damaged file of {} bytes issued more than 300,000 storage calls without returning (loop in {frame}; file length after write-ahead-log recovery: {len_after_recovery})", m.data.len()),
                                json!({"engine":"c07","case":case,"seed":args.u64("seed",1),"tier":args.str("tier","quick"),"variant":"prescreen",
                                       "data_operator":dop,"wal_operator":wop,"data_hex":hex(&m.data),"wal_hex":hex(&m.wal)}),
                            );
                        }
                    } else {
                        rep.inconclusive(&format!("mutant {dop}+{wop} of case {case} exceeds the step budget when read, in {frame} (the property only excludes panics for reads; termination of queries is C19's subject)"));
                    }
                    continue;
                }
            }
            for variant in ["mapped", "file", "memory"] {
                let p = crash::write_images(&mdir, "m.agdb", &m);
                progress(&format!("{dop}+{wop} variant={variant} mutant={i} data={} wal={}", hex(&m.data[..m.data.len().min(40)]), hex(&m.wal[..m.wal.len().min(24)])));
                rep.eval();
                vcore::alloccap::REFUSED.store(0, std::sync::atomic::Ordering::SeqCst);
                let r = panicmon::catch(|| -> Result<Result<(), String>, String> {
                    let any: AnyDb = open(variant, &p).map_err(|e| {
                        // innermost cause: that is where the damage was detected
                        let mut c = &e;
                        while let Some(inner) = &c.cause {
                            c = inner;
                        }
                        c.description.clone()
                    })?;
                    Ok(with_db!(&any, db, dump::dump(db, &probe())).map(|_| ()))
                });
                let outcome = match &r {
                    Ok(Ok(Ok(()))) => "opened_and_read",
                    Ok(Ok(Err(_))) => "opened_read_error",
                    Ok(Err(_)) => "open_error",
                    Err(_) => "panic",
                };
                rep.count(outcome);
                rep.distinct_hash(tag(&format!("{dop}|{wop}|{variant}|{outcome}")));
                let refused = vcore::alloccap::REFUSED.swap(0, std::sync::atomic::Ordering::SeqCst);
                if refused > 0 {
                    // the request was refused by the cap and the code recovered (no abort): still an attempt
                    let why = match &r {
                        Ok(Err(e)) => panicmon::classify(e),
                        Ok(Ok(Err(e))) => panicmon::classify(e),
                        _ => "?".to_string(),
                    };
                    let sig = format!("C07:allocation_request_above_cap_handled:{}", why.chars().take(60).collect::<String>());
                    rep.count("allocation_requests_above_cap_handled_gracefully");
                    if fired.insert(sig.clone()) {
                        rep.violation(
                            &sig,
                            &format!("[{variant}] {dop}+{wop}: a single allocation of {refused} bytes was requested for a file of {} bytes (refused by the cap; the code returned an error)", m.data.len()),
                            json!({"engine":"c07","case":case,"seed":args.u64("seed",1),"tier":args.str("tier","quick"),"variant":variant,
                                   "data_operator":dop,"wal_operator":wop,"data_hex":hex(&m.data),"wal_hex":hex(&m.wal)}),
                        );
                    }
                }
                if let Err(pn) = r {
                    let sig = format!("C07:{}", pn.signature());
                    if fired.insert(sig.clone()) {
                        rep.violation(
                            &sig,
                            &format!("[{variant}] {dop}+{wop}: panic {} at {}:{}", pn.message, pn.file, pn.line),
                            json!({"engine":"c07","case":case,"seed":args.u64("seed",1),"tier":args.str("tier","quick"),"variant":variant,
                                   "data_operator":dop,"wal_operator":wop,"data_hex":hex(&m.data),"wal_hex":hex(&m.wal)}),
                        );
                    }
                }
            }
        }
        if case == 0 {
            rep.sample(|| json!({"base_files": bases.len(), "base_data_bytes": bases[0].data.len(), "example": "record_size+wal_torn"}));
        }
        let _ = std::fs::remove_dir_all(&dir);
    }
    fn finish(&self, args: &Args, rep: &mut Report) {
        rep.require("opened_and_read", 200);
        rep.require("open_error", 200);
        rep.require("mutants_of_mid_transaction_states", 100);
        let _ = std::fs::remove_dir_all(args.str("scratch", "/verif/scratch/c07"));
    }
}
