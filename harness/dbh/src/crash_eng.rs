//! C02 / C03: crash points over query histories. One recorded run of a generated
//! history (queries, multi-query transactions incl. rolled back ones, close+reopen)
//! logs every mutating file-system call; for every prefix the two files are
//! materialised and reopened with the real code.
//!   C02: every snapshot opens with every file-backed variant and dumps completely.
//!   C03: the recovered exact dump equals the dump before or after the interrupted step.

use crate::hist_eng::AnyDb;
use crate::hist_eng::exec_step;
use crate::hist_eng::open;
use crate::hist_eng::probe;
use crate::with_db;
use agdb::DbError;
use serde_json::json;
use std::collections::BTreeSet;
use vcore::Args;
use vcore::crash;
use vcore::dump;
use vcore::dump::Dump;
use vcore::genq::Gen;
use vcore::genq::GenCfg;
use vcore::model::Model;
use vcore::model::MutQ;
use vcore::panicmon;
use vcore::report::Report;
use vcore::rng::derive;
use vcore::rng::tag;
use vcore::workers::CaseEngine;

pub struct Crash {
    pub prop: &'static str,
}

#[derive(Clone, Debug)]
enum Step {
    Q(MutQ),
    Tx(Vec<MutQ>, bool),
    Reopen,
    Rename,
    Close,
}

impl Step {
    fn kind(&self) -> String {
        match self {
            Step::Q(q) => q.kind().to_string(),
            Step::Tx(_, true) => "transaction_committed".into(),
            Step::Tx(_, false) => "transaction_rolled_back".into(),
            Step::Reopen => "close_and_reopen".into(),
            Step::Rename => "rename".into(),
            Step::Close => "close".into(),
        }
    }
}

fn cfg() -> GenCfg {
    let mut c = GenCfg::default();
    c.w = [12, 4, 14, 4, 8, 18, 3, 2, 10, 3, 7];
    c.hostile_pct = 6;
    c.max_nodes = 8;
    c
}

pub struct Recorded {
    pub initial: crash::Images,
    pub events: Vec<crash::Logged>,
    /// dumps[i] = exact dump after step i-1 (dumps[0] = before step 0)
    dumps: Vec<Dump>,
    steps: Vec<Step>,
    /// name of the data file at the end (after renames)
    pub final_path: String,
    /// indices of the calls before which the real files were copied to `<dir>/snaps/<k>.data|.wal`
    pub snaps: Vec<usize>,
}

fn dump_any(any: &AnyDb) -> Result<Dump, String> {
    with_db!(any, db, dump::dump(db, &probe()))
}

pub fn record(kind: &str, path: &str, seed: u64, len: usize, bursts: bool) -> Result<Recorded, String> {
    crate::hist_eng::cleanup(path);
    // creation of the empty database is outside the quantifier
    drop(open(kind, path).map_err(|e| format!("create: {e:?}"))?);
    let initial = crash::read_images(path);
    let rec = crash::install();
    let dir = path.rfind('/').map(|i| &path[..i]).unwrap_or(".").to_string();
    {
        let snap_dir = format!("{dir}/snaps");
        let _ = std::fs::create_dir_all(&snap_dir);
        let mut r = rec.borrow_mut();
        r.path = Some(path.to_string());
        r.snap_dir = Some(snap_dir);
        r.snap_stride = 37;
    }
    let mut cur = path.to_string();
    let mut renames = 0;
    let mut any = open(kind, path).map_err(|e| format!("open: {e:?}"))?;
    let mut model = Model::default();
    let mut c = cfg();
    c.bursts = bursts;
    let mut g = Gen::new(seed, c);
    let mut dumps = vec![dump_any(&any)?];
    let mut steps = vec![];
    let mut synced = true;
    for i in 0..len {
        rec.borrow_mut().step = i;
        let r = g.rng.below(100);
        let step = if r < 8 {
            Step::Reopen
        } else if r < 12 || i == 2 {
            renames += 1;
            let new = format!("{dir}/h_renamed_{renames}.agdb");
            crate::hist_eng::cleanup(&new);
            with_db!(&mut any, db, db.rename(&new)).map_err(|e| format!("rename: {e:?}"))?;
            cur = new;
            Step::Rename
        } else if r < 24 {
            let k = 2 + g.rng.usize(4);
            let commit = g.rng.chance(2, 3);
            let mut scratch = model.clone();
            let mut qs = vec![];
            let res: Result<(), DbError> = with_db!(&mut any, db, db.transaction_mut(|t| {
                for _ in 0..k {
                    let q = g.next(&scratch);
                    qs.push(q.clone());
                    match q.to_agdb().exec_tx(t) {
                        Ok(r) => {
                            if !matches!(scratch.apply(&q, Some(&r)), Ok(Ok(()))) {
                                synced = false;
                            }
                        }
                        Err(e) => return Err(e),
                    }
                }
                if commit {
                    Ok(())
                } else {
                    Err(DbError::db(agdb::DbErrorType::NotAllowed, "verif: roll back"))
                }
            }));
            if res.is_ok() {
                model = scratch;
            } else {
                // orders may be permuted by the rollback: resynchronise lazily through the dump below
            }
            Step::Tx(qs, res.is_ok())
        } else {
            let q = g.next(&model);
            let v = with_db!(&mut any, db, exec_step(db, &mut model, &q).1);
            if v.is_some() {
                synced = false;
            }
            Step::Q(q)
        };
        if let Step::Reopen = step {
            drop(any);
            any = open(kind, &cur).map_err(|e| format!("reopen: {e:?}"))?;
        }
        let d = dump_any(&any)?;
        // keep the generator's model usable after rollbacks / failed queries
        if !dump::adopt_orders(&mut model, &d) {
            synced = false;
        }
        dumps.push(d);
        steps.push(step);
        if !synced {
            break; // semantic disagreement: other properties' business; stop the history here
        }
    }
    rec.borrow_mut().step = steps.len();
    drop(any);
    steps.push(Step::Close);
    crash::uninstall();
    // closing does not change the content
    let last = dumps.last().cloned().unwrap();
    dumps.push(last);
    let events = rec.borrow().events.clone();
    let snaps = rec.borrow().snaps.clone();
    Ok(Recorded {
        initial,
        events,
        dumps,
        steps,
        final_path: cur,
        snaps,
    })
}

const VARIANTS: [&str; 4] = ["mapped", "file", "any_file", "any_mapped"];

impl CaseEngine for Crash {
    fn property(&self) -> &'static str {
        self.prop
    }
    fn rule(&self) -> String {
        "generated histories of mutating queries, multi-query transactions (committed and rolled back), rename and close+reopen on Db and \
         DbFile, recorded through the fs_event hooks; every prefix of the mutating file-system calls is materialised and reopened; before \
         every 37th call the real files are also copied as found under the database's current name, compared with the materialised images \
         and, when they differ, put through the same oracle (what a restarted process would find). C02: the \
         snapshot opens with Db, DbFile, DbAny::new_file and DbAny::new_mapped without error or panic and the complete canonical dump \
         succeeds. C03: the exact canonical dump of the recovered database equals the dump before or after the interrupted step. \
         evaluations = crash points checked; distinct = distinct (interrupted step kind, call site, previous call site) classes"
            .into()
    }
    fn cases(&self, args: &Args) -> usize {
        args.u64("n", if args.thorough() { 400 } else { 16 }) as usize
    }
    fn case_timeout_s(&self, _args: &Args) -> u64 {
        240
    }
    fn run_case(&self, args: &Args, case: usize, rep: &mut Report, progress: &dyn Fn(&str)) {
        let seed = derive(args.u64("seed", 1), &[tag("crash"), case as u64]);
        let thorough = args.thorough();
        let len = if case % 4 == 3 { 14 + (seed % 10) as usize } else { 5 + (seed % 6) as usize };
        let max_points = args.u64("max-points", if thorough { 8000 } else { 1200 }) as usize;
        let scratch = args.str("scratch", &format!("/verif/scratch/crash_{}", self.prop));
        let dir = vcore::scratch_dir(&scratch, &format!("c{case}"));
        let kind = if case % 2 == 0 { "mapped" } else { "file" };
        let path = format!("{dir}/h.agdb");
        let rec = match panicmon::catch(|| record(kind, &path, seed, len, case % 8 == 7)) {
            Ok(Ok(r)) => r,
            Ok(Err(e)) => {
                rep.inconclusive(&format!("recorded run failed: {e}"));
                return;
            }
            Err(p) => {
                rep.inconclusive(&format!("recorded run panicked (other properties' business): {}", p.message));
                return;
            }
        };
        // shadow self-check
        let mut img = rec.initial.clone();
        for l in &rec.events {
            crash::apply(&mut img, &l.ev);
        }
        if crash::read_images(&rec.final_path) != img {
            rep.coverage_fail
                .push("shadow images differ from the real files: a mutating call bypassed the fs_event hooks".into());
            return;
        }
        rep.count("recorded_histories");
        rep.count("shadow_selfcheck_ok");
        for s in &rec.steps {
            rep.count(&format!("steps_{}", s.kind()));
        }
        rep.max("max_events_per_history", rec.events.len() as i64);
        if case < 2 {
            rep.sample(|| json!({"case": case, "backend": kind, "steps": rec.steps.iter().map(|s| format!("{s:?}")).take(6).collect::<Vec<_>>(), "fs_calls": rec.events.len()}));
        }
        // every crash point when the history is short enough, otherwise an even sample of them
        let stride = std::cmp::max(1, rec.events.len() / max_points);
        if stride == 1 {
            rep.count("histories_with_every_crash_point");
        } else {
            rep.count("histories_with_sampled_crash_points");
        }
        let mut fired: BTreeSet<String> = BTreeSet::new();
        let mut img = rec.initial.clone();
        let rdir = format!("{dir}/r");
        let _ = std::fs::create_dir_all(&rdir);
        for k in 0..=rec.events.len() {
            let step = rec.events.get(k).map(|l| l.step).unwrap_or(rec.steps.len() - 1);
            let site = rec.events.get(k).map(|l| l.ev.site).unwrap_or("end");
            let prev = if k > 0 { rec.events[k - 1].ev.site } else { "start" };
            let skind = rec.steps.get(step).map(|s| s.kind()).unwrap_or("close".into());
            if k % stride == 0 || k == rec.events.len() || skind == "rename" {
                rep.eval();
                rep.distinct_hash(tag(&format!("{skind}|{site}|{prev}")));
                rep.count(&format!("crash_in_{skind}"));
                progress(&format!("{skind} crash_before_call={k} site={site}"));
                let replay = json!({"engine": format!("crash_{}", self.prop.to_lowercase()), "case": case, "seed": args.u64("seed", 1),
                    "tier": args.str("tier", "quick"), "backend": kind, "crash_before_call": k, "call": rec.events.get(k).map(|l| crash::describe(&l.ev)),
                    "interrupted_step": format!("{:?}", rec.steps.get(step)), "step_index": step});
                let variant = VARIANTS[k % VARIANTS.len()];
                let mut variants: Vec<&str> = if self.prop == "C02" { vec!["mapped", variant] } else { vec!["mapped"] };
                // the files as they really were on disk under the database's current name (what a restarted
                // process would find), when the recorder copied them before this call
                let real = if rec.snaps.contains(&k) {
                    Some(crash::Images {
                        data: std::fs::read(format!("{dir}/snaps/{k}.data")).unwrap_or_default(),
                        wal: std::fs::read(format!("{dir}/snaps/{k}.wal")).unwrap_or_default(),
                    })
                } else {
                    None
                };
                if let Some(real) = &real {
                    rep.count("crash_points_on_copies_of_the_real_files");
                    if *real != img {
                        rep.count("real_files_differ_from_the_shadow_images");
                        variants.push("real_files");
                    }
                }
                for (vi, var) in variants.iter().enumerate() {
                    let on_real = *var == "real_files";
                    let var = if on_real { &"mapped" } else { var };
                    let vi = if on_real { 0 } else { vi };
                    let p = crash::write_images(&rdir, "r.agdb", if on_real { real.as_ref().unwrap_or(&img) } else { &img });
                    let got = panicmon::catch(|| -> Result<Dump, (String, String)> {
                        let any = open(var, &p).map_err(|e| ("open_failed".to_string(), format!("{e:?}")))?;
                        dump_any(&any).map_err(|e| ("read_failed".to_string(), e))
                    });
                    match got {
                        Ok(Ok(d)) => {
                            if self.prop == "C03" && vi == 0 {
                                let before = &rec.dumps[step];
                                let after = &rec.dumps[step + 1];
                                if dump::diff(&d, before, true).is_some() {
                                    if let Some((what, detail)) = dump::diff(&d, after, true) {
                                        // which of the two is it closer to, for the message
                                        let sig = format!("C03:partial_state:{skind}:{what}");
                                        if fired.insert(sig.clone()) {
                                            rep.violation(
                                                &sig,
                                                &format!(
                                                    "[{kind}] crash before call {k} ({}) inside step {step} ({skind}): recovered state equals neither the state before nor after the step; vs after: {detail}; vs before: {:?}",
                                                    rec.events.get(k).map(|l| crash::describe(&l.ev)).unwrap_or("end".into()),
                                                    dump::diff(&d, before, true).map(|x| x.1)
                                                ),
                                                replay.clone(),
                                            );
                                        }
                                    } else {
                                        rep.count("recovered_to_state_after");
                                    }
                                } else {
                                    rep.count("recovered_to_state_before");
                                }
                            }
                        }
                        Ok(Err((what, detail))) => {
                            if self.prop == "C02" {
                                let sig = format!("C02:{what}:{skind}");
                                if fired.insert(sig.clone()) {
                                    rep.violation(&sig, &format!("[{kind}] crash before call {k} during {skind}, reopened as {var}: {detail}"), replay.clone());
                                }
                            } else if vi == 0 {
                                let sig = format!("C03:unreadable_after_crash:{skind}");
                                if fired.insert(sig.clone()) {
                                    rep.violation(&sig, &format!("[{kind}] crash before call {k} during {skind}: {what}: {detail}"), replay.clone());
                                }
                            }
                        }
                        Err(pn) => {
                            let sig = format!("{}:{}:{skind}", self.prop, pn.signature());
                            if fired.insert(sig.clone()) {
                                rep.violation(&sig, &format!("[{kind}] crash before call {k} during {skind}, reopened as {var}: panic {}", pn.message), replay.clone());
                            }
                        }
                    }
                }
            }
            if let Some(l) = rec.events.get(k) {
                crash::apply(&mut img, &l.ev);
            }
        }
        let _ = std::fs::remove_dir_all(&dir);
    }
    fn finish(&self, args: &Args, rep: &mut Report) {
        rep.require("shadow_selfcheck_ok", 4);
        rep.require("crash_points_on_copies_of_the_real_files", 20);
        if rep.counters.get("real_files_differ_from_the_shadow_images").copied().unwrap_or(0) > 0 && rep.violations_total == 0 {
            rep.coverage_fail.push(
                "the files on disk differed from the shadow images built from the fs_event hooks although recovery from them was correct: a mutating call bypassed the hooks".into(),
            );
        }
        for k in ["insert_nodes", "insert_edges", "insert_values", "remove", "insert_aliases", "transaction_committed", "transaction_rolled_back", "close_and_reopen", "rename", "close"] {
            rep.require(&format!("crash_in_{k}"), 1);
        }
        rep.assumptions.push("crash granularity = one mutating file-system call; no OS write reordering; crash points inside the creation of the empty database are excluded".into());
        let _ = std::fs::remove_dir_all(args.str("scratch", &format!("/verif/scratch/crash_{}", self.prop)));
    }
}
