//! C22: user types stored with the derive macros read back unchanged, and an
//! update through the id field updates exactly that element.

use crate::hist_eng::AnyDb;
use crate::hist_eng::open;
use crate::hist_eng::probe;
use crate::with_db;
use agdb::DbId;
use agdb::DbSerialize;
use agdb::DbType;
use agdb::DbTypeMarker;
use agdb::DbValue;
use agdb::QueryBuilder;
use agdb::QueryId;
use serde_json::json;
use vcore::Args;
use vcore::dump;
use vcore::panicmon;
use vcore::report::Report;
use vcore::rng::Rng;
use vcore::rng::derive;
use vcore::rng::tag;
use vcore::workers::CaseEngine;

#[derive(Debug, Clone, PartialEq, DbSerialize, DbValue)]
pub enum Status {
    Active,
    Inactive,
    Banned(i64),
    Suspended { until: i64, reason: String },
}

impl Default for Status {
    fn default() -> Self {
        Status::Active
    }
}

#[derive(Debug, Clone, PartialEq, Default, DbTypeMarker, DbSerialize, DbValue)]
pub struct Prop {
    pub name: String,
    pub value: i64,
    /// an enum (possibly in a struct-like variant) followed by more data inside a nested custom value
    pub state: Status,
    pub tail: Vec<String>,
}

#[derive(Debug, Clone, PartialEq, DbType)]
pub struct Sub {
    pub sub_id: i64,
    pub sub_name: String,
}

#[derive(Debug, Clone, PartialEq, DbType)]
pub struct Scalars {
    pub db_id: Option<DbId>,
    pub a: i64,
    pub b: u64,
    pub c: f64,
    pub d: String,
    pub e: bool,
}

#[derive(Debug, Clone, PartialEq, DbType)]
pub struct Vectors {
    pub db_id: Option<QueryId>,
    pub vi: Vec<i64>,
    pub vu: Vec<u64>,
    pub vf: Vec<f64>,
    pub vs: Vec<String>,
    pub vb: Vec<u8>,
    pub flags: Vec<bool>,
}

#[derive(Debug, Clone, PartialEq, DbType)]
pub struct Rich {
    pub db_id: Option<DbId>,
    pub o1: Option<String>,
    pub o2: Option<i64>,
    pub o3: Option<Vec<String>>,
    pub st: Status,
    pub p: Prop,
    pub ps: Vec<Prop>,
    #[agdb(rename = "renamed_field")]
    pub r: String,
    #[agdb(skip)]
    pub sk: Prop,
    #[agdb(flatten)]
    pub sub: Sub,
}

fn string(rng: &mut Rng) -> String {
    let n = match rng.below(6) {
        0 => 0,
        1 => 15,
        2 => 16,
        _ => rng.usize(24),
    };
    (0..n)
        .map(|_| match rng.below(7) {
            0 => 'é',
            1 => '😀',
            _ => (b'a' + rng.below(26) as u8) as char,
        })
        .collect()
}

fn f64v(rng: &mut Rng) -> f64 {
    match rng.below(5) {
        0 => 0.0,
        1 => -0.0,
        2 => f64::MAX,
        _ => (rng.next_u64() as i64 as f64) / 4096.0,
    }
}

fn status(rng: &mut Rng) -> Status {
    match rng.below(4) {
        0 => Status::Active,
        1 => Status::Inactive,
        2 => Status::Banned(rng.next_u64() as i64),
        _ => Status::Suspended {
            until: rng.next_u64() as i64,
            reason: string(rng),
        },
    }
}

fn prop(rng: &mut Rng) -> Prop {
    Prop {
        name: string(rng),
        value: rng.next_u64() as i64,
        state: status(rng),
        tail: (0..rng.usize(3)).map(|_| string(rng)).collect(),
    }
}

fn scalars(rng: &mut Rng) -> Scalars {
    Scalars {
        db_id: None,
        a: rng.next_u64() as i64,
        b: rng.next_u64(),
        c: f64v(rng),
        d: string(rng),
        e: rng.chance(1, 2),
    }
}

fn vectors(rng: &mut Rng) -> Vectors {
    let n = |rng: &mut Rng| rng.usize(5);
    Vectors {
        db_id: None,
        vi: (0..n(rng)).map(|_| rng.next_u64() as i64).collect(),
        vu: (0..n(rng)).map(|_| rng.next_u64()).collect(),
        vf: (0..n(rng)).map(|_| f64v(rng)).collect(),
        vs: (0..n(rng)).map(|_| string(rng)).collect(),
        vb: {
            let k = rng.usize(20);
            rng.bytes(k)
        },
        flags: (0..n(rng)).map(|_| rng.chance(1, 2)).collect(),
    }
}

fn rich(rng: &mut Rng) -> Rich {
    Rich {
        db_id: None,
        o1: if rng.chance(1, 2) { Some(string(rng)) } else { None },
        o2: if rng.chance(1, 2) { Some(rng.next_u64() as i64) } else { None },
        o3: if rng.chance(1, 2) { Some((0..rng.usize(4)).map(|_| string(rng)).collect()) } else { None },
        st: status(rng),
        p: prop(rng),
        ps: (0..rng.usize(4)).map(|_| prop(rng)).collect(),
        r: string(rng),
        sk: Prop::default(),
        sub: Sub {
            sub_id: rng.next_u64() as i64,
            sub_name: string(rng),
        },
    }
}

pub struct C22;

macro_rules! roundtrip_type {
    ($any:expr, $rep:expr, $fired:expr, $ctx:expr, $ty:ty, $name:expr, $values:expr, $with_id:expr, $mutate:expr, $kind:expr) => {{
        let values: Vec<$ty> = $values;
        // batch insert
        let r = with_db!(&mut $any, db, db.exec_mut(QueryBuilder::insert().nodes().values(&values).query()));
        match r {
            Ok(r) => {
                let ids: Vec<i64> = r.elements.iter().map(|e| e.id.0).collect();
                let back: Result<Vec<$ty>, agdb::DbError> =
                    with_db!(&$any, db, db.exec(QueryBuilder::select().elements::<$ty>().ids(ids.clone()).query())).and_then(|r| r.try_into());
                $rep.eval();
                match back {
                    Ok(back) => {
                        let expect: Vec<$ty> = values.iter().zip(&ids).map(|(v, id)| $with_id(v.clone(), *id)).collect();
                        if back != expect {
                            let i = back.iter().zip(&expect).position(|(a, b)| a != b).unwrap_or(0);
                            let sig = format!("C22:read_back_differs:{}:batch", $name);
                            if $fired.insert(sig.clone()) {
                                $rep.violation(&sig, &format!("[{}] inserted {:?} read back {:?}", $kind, expect.get(i), back.get(i)), $ctx.clone());
                            }
                        }
                    }
                    Err(e) => {
                        let sig = format!("C22:read_back_failed:{}:batch", $name);
                        if $fired.insert(sig.clone()) {
                            $rep.violation(&sig, &format!("[{}] {}", $kind, e.description), $ctx.clone());
                        }
                    }
                }
                // single insert through element(), then update through the id field
                if let Some(first) = values.first() {
                    let r = with_db!(&mut $any, db, db.exec_mut(QueryBuilder::insert().element(first).query()));
                    if let Ok(r) = r {
                        if let Some(new_id) = r.elements.first().map(|e| e.id.0) {
                            let before = with_db!(&$any, db, dump::dump(db, &probe()));
                            let updated: $ty = $mutate($with_id(first.clone(), new_id));
                            let u = with_db!(&mut $any, db, db.exec_mut(QueryBuilder::insert().element(&updated).query()));
                            $rep.eval();
                            $rep.count("updates_through_id_field");
                            match u {
                                Ok(_) => {
                                    let back: Result<$ty, agdb::DbError> =
                                        with_db!(&$any, db, db.exec(QueryBuilder::select().elements::<$ty>().ids(new_id).query())).and_then(|r| r.try_into());
                                    match back {
                                        Ok(b) if b == updated => {}
                                        other => {
                                            let sig = format!("C22:update_not_visible:{}", $name);
                                            if $fired.insert(sig.clone()) {
                                                $rep.violation(&sig, &format!("[{}] updated to {:?} but read {:?}", $kind, updated, other.map_err(|e| e.description)), $ctx.clone());
                                            }
                                        }
                                    }
                                    // every other element unchanged
                                    let after = with_db!(&$any, db, dump::dump(db, &probe()));
                                    if let (Ok(mut a), Ok(mut b)) = (before, after) {
                                        a.elems.remove(&new_id);
                                        b.elems.remove(&new_id);
                                        a.index_hits.clear();
                                        b.index_hits.clear();
                                        if let Some((w, detail)) = dump::diff(&b, &a, true) {
                                            let sig = format!("C22:update_touched_other_elements:{}:{w}", $name);
                                            if $fired.insert(sig.clone()) {
                                                $rep.violation(&sig, &format!("[{}] {detail}", $kind), $ctx.clone());
                                            }
                                        }
                                    }
                                }
                                Err(e) => {
                                    let sig = format!("C22:update_failed:{}", $name);
                                    if $fired.insert(sig.clone()) {
                                        $rep.violation(&sig, &format!("[{}] {}", $kind, e.description), $ctx.clone());
                                    }
                                }
                            }
                        }
                    }
                }
            }
            Err(e) => {
                let sig = format!("C22:insert_failed:{}", $name);
                if $fired.insert(sig.clone()) {
                    $rep.violation(&sig, &format!("[{}] {}", $kind, e.description), $ctx.clone());
                }
            }
        }
    }};
}

impl CaseEngine for C22 {
    fn property(&self) -> &'static str {
        "C22"
    }
    fn rule(&self) -> String {
        "a corpus of derived user types (scalars incl. bool and f64, every vector kind incl. bytes and bools, Option fields that are None \
         and Some, an enum and a struct value type via derive(DbValue), vectors of them, db_id as Option<DbId> and Option<QueryId>, \
         rename, skip, flatten) with generated field values (15/16-byte strings, unicode, empty vectors, extremes) inserted in batches and \
         singly on DbMemory / DbFile / Db, selected back as the type (must be equal, skipped fields default), then updated through the id \
         field: the update is visible and the exact dump of every other element is unchanged. evaluations = read-back and update checks; \
         distinct = distinct (type, variant, batch size) triples"
            .into()
    }
    fn cases(&self, args: &Args) -> usize {
        args.u64("n", if args.thorough() { 4000 } else { 240 }) as usize
    }
    fn run_case(&self, args: &Args, case: usize, rep: &mut Report, _p: &dyn Fn(&str)) {
        let seed = derive(args.u64("seed", 1), &[tag("C22"), case as u64]);
        let mut rng = Rng::new(seed);
        let scratch = args.str("scratch", "/verif/scratch/c22");
        let dir = vcore::scratch_dir(&scratch, &format!("c{case}"));
        let kind = ["memory", "file", "mapped"][case % 3];
        let ctx = json!({"engine":"c22","case":case,"seed":args.u64("seed",1),"tier":args.str("tier","quick"),"backend":kind});
        let mut fired = std::collections::BTreeSet::new();
        let r = panicmon::catch(|| {
            let mut any: AnyDb = match open(kind, &format!("{dir}/t.agdb")) {
                Ok(a) => a,
                Err(_) => return,
            };
            for round in 0..6 {
                let n = 1 + rng.usize(5);
                rep.distinct_hash(tag(&format!("{kind}|{n}|{round}")));
                roundtrip_type!(any, rep, fired, ctx, Scalars, "Scalars", (0..n).map(|_| scalars(&mut rng)).collect(),
                    |mut v: Scalars, id: i64| { v.db_id = Some(DbId(id)); v },
                    |mut v: Scalars| { v.a = v.a.wrapping_add(1); v.d.push('!'); v.e = !v.e; v }, kind);
                roundtrip_type!(any, rep, fired, ctx, Vectors, "Vectors", (0..n).map(|_| vectors(&mut rng)).collect(),
                    |mut v: Vectors, id: i64| { v.db_id = Some(QueryId::Id(DbId(id))); v },
                    |mut v: Vectors| { v.vi.push(7); v.vs.clear(); v.vb.push(1); v }, kind);
                roundtrip_type!(any, rep, fired, ctx, Rich, "Rich", (0..n).map(|_| rich(&mut rng)).collect(),
                    |mut v: Rich, id: i64| { v.db_id = Some(DbId(id)); v },
                    |mut v: Rich| { v.o1 = Some("now set".into()); v.ps.push(Prop { name: "n".into(), value: 1, state: Status::Suspended { until: 5, reason: "r".into() }, tail: vec!["t".into()] }); v.st = Status::Banned(3); v.sub.sub_id += 1; v }, kind);
            }
        });
        if let Err(p) = r {
            rep.violation(&format!("C22:{}", p.signature()), &format!("[{kind}] panic {} at {}:{}", p.message, p.file, p.line), ctx.clone());
        }
        if case == 0 {
            let mut rng = Rng::new(1);
            rep.sample(|| json!({"examples": [format!("{:?}", rich(&mut rng)), format!("{:?}", vectors(&mut rng))]}));
        }
        let _ = std::fs::remove_dir_all(&dir);
    }
    fn finish(&self, args: &Args, rep: &mut Report) {
        rep.require("updates_through_id_field", 100);
        let _ = std::fs::remove_dir_all(args.str("scratch", "/verif/scratch/c22"));
    }
}
