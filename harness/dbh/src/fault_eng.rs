//! C32: a failed write never corrupts or loses later committed work. Faults are
//! injected through the public `StorageData` wrapper `MonStorage` passed to
//! `DbImpl::with_data`: the k-th write/resize of one query fails once ("disk full").

use crate::hist_eng::check_state;
use crate::hist_eng::exec_step;
use crate::hist_eng::probe;
use agdb::DbImpl;
use agdb::FileStorage;
use agdb::FileStorageMemoryMapped;
use agdb::StorageData;
use serde_json::json;
use std::collections::BTreeSet;
use std::sync::Arc;
use vcore::Args;
use vcore::dump;
use vcore::genq::Gen;
use vcore::genq::GenCfg;
use vcore::model::Model;
use vcore::model::MutQ;
use vcore::panicmon;
use vcore::report::Report;
use vcore::rng::derive;
use vcore::rng::tag;
use vcore::workers::CaseEngine;
use vcore::wrap::Ctl;
use vcore::wrap::MonStorage;

pub struct C32;

/// fault positions >= FLUSH address the (k - FLUSH)-th flush (log truncation) of the query
const FLUSH: i64 = 1_000_000;

fn cfg() -> GenCfg {
    let mut c = GenCfg::default();
    c.w = [12, 4, 14, 4, 8, 18, 3, 2, 9, 3, 7];
    c.hostile_pct = 0;
    c.bursts = false;
    c.max_nodes = 8;
    c.allow_search_ids = false;
    c
}

/// the queries of the history (generated once against the model, valid ones only)
fn history(seed: u64, len: usize) -> Vec<MutQ> {
    // generated against a throw-away in-memory database so that ids are real
    let mut db = agdb::DbMemory::new("h").unwrap();
    let mut model = Model::default();
    let mut g = Gen::new(seed, cfg());
    let mut qs = vec![];
    let mut guard = 0;
    while qs.len() < len && guard < len * 6 {
        guard += 1;
        let q = g.next(&model);
        if model.apply(&q, None).is_err() {
            continue;
        }
        let (r, v) = exec_step(&mut db, &mut model, &q);
        if v.is_some() {
            break;
        }
        if r.is_ok() {
            qs.push(q);
        }
    }
    qs
}

type Db<S> = DbImpl<MonStorage<S>>;

fn open<S: StorageData>(path: &str, ctl: Arc<Ctl>) -> Result<Db<S>, String> {
    let s = S::new(path).map_err(|e| format!("{e:?}"))?;
    DbImpl::with_data(MonStorage::wrap(s, ctl)).map_err(|e| format!("{e:?}"))
}

struct Outcome {
    class: String,
    detail: String,
}

/// replays `qs[..i]` fault-free, then fails the k-th mutating storage call of `qs[i]`
fn one_fault<S: StorageData>(
    path: &str,
    qs: &[MutQ],
    i: usize,
    k: i64,
    seed: u64,
    rep: &mut Report,
    maint: Option<u8>,
) -> Result<(), Outcome> {
    crate::hist_eng::cleanup(path);
    let out = |class: &str, detail: String| Outcome {
        class: class.to_string(),
        detail,
    };
    let ctl = Ctl::new();
    let mut db: Db<S> = open::<S>(path, ctl.clone()).map_err(|e| out("harness_open_failed", e))?;
    let mut model = Model::default();
    for q in &qs[..i] {
        let (r, v) = exec_step(&mut db, &mut model, q);
        if r.is_err() || v.is_some() {
            return Err(out("harness_prefix_diverged", format!("{q:?}")));
        }
    }
    let pr = probe();
    let before = dump::dump(&db, &pr).map_err(|e| out("harness_dump_failed", e))?;
    // (a) the faulted query reports an error
    let fired_before = ctl.faults_fired.load(std::sync::atomic::Ordering::SeqCst);
    if k >= FLUSH {
        ctl.fail_flush_in.store(k - FLUSH, std::sync::atomic::Ordering::SeqCst);
    } else {
        ctl.arm_fault(k);
    }
    // `maint`: the faulted operation is a maintenance call after qs[..i] instead of the query qs[i]
    let name: String = match maint {
        Some(0) => "optimize_storage".into(),
        Some(_) => "shrink_to_fit".into(),
        None => qs[i].kind().to_string(),
    };
    let r: Result<(), String> = match maint {
        Some(0) => db.optimize_storage().map_err(|e| e.description),
        Some(_) => db.shrink_to_fit().map_err(|e| e.description),
        None => qs[i].to_agdb().exec(&mut db).map(|_| ()).map_err(|e| e.description),
    };
    ctl.disarm();
    ctl.fail_flush_in.store(-1, std::sync::atomic::Ordering::SeqCst);
    if ctl.faults_fired.load(std::sync::atomic::Ordering::SeqCst) == fired_before {
        rep.count("fault_points_not_reached");
        return Ok(()); // the query needed fewer calls this time: nothing was injected
    }
    rep.count("faults_injected");
    if maint.is_some() {
        rep.count("maintenance_flush_faults_injected");
    }
    if r.is_ok() {
        return Err(out("faulted_query_reported_success", format!("{name:?} returned Ok although storage call {k} failed")));
    }
    // (b) and it has no effect
    match dump::dump(&db, &pr) {
        Ok(after) => {
            if let Some((what, detail)) = dump::diff(&after, &before, false) {
                return Err(out(&format!("failed_query_had_effect:{what}"), detail));
            }
            dump::adopt_orders(&mut model, &after);
        }
        Err(e) => return Err(out("database_unreadable_after_fault", e)),
    }
    rep.count("failed_query_left_no_effect");
    // (c) the database stays usable: further valid queries succeed and the model monitors keep holding
    let mut g = Gen::new(seed ^ 0x1234, cfg());
    let later = if maint.is_some() { 14 } else { 5 } + (seed % 11) as usize;
    let mut done = 0;
    let mut guard = 0;
    while done < later && guard < later * 8 {
        guard += 1;
        let q = g.next(&model);
        if model.apply(&q, None).is_err() {
            continue;
        }
        let (r, v) = exec_step(&mut db, &mut model, &q);
        if let Err(e) = &r {
            return Err(out("database_unusable_after_fault", format!("valid query {} failed after the fault: {}", q.kind(), e.description)));
        }
        if let Some(v) = v {
            return Err(out(&format!("wrong_result_after_fault:{}", v.class), v.detail));
        }
        done += 1;
    }
    if let Some(v) = check_state(&db, &mut model, &pr, None) {
        return Err(out(&format!("wrong_state_after_fault:{}", v.class), v.detail));
    }
    rep.count("later_queries_ok");
    // (d) everything that succeeded afterwards survives close + reopen with the plain database
    let last = dump::dump(&db, &pr).map_err(|e| out("database_unreadable_after_fault", e))?;
    drop(db);
    let plain = agdb::DbFile::new(path).map_err(|e| out("reopen_failed_after_fault", format!("{e:?}")))?;
    match dump::dump(&plain, &pr) {
        Ok(re) => {
            if let Some((what, detail)) = dump::diff(&re, &last, true) {
                let lost = re.elems.len() < last.elems.len() || dump::diff(&re, &before, false).is_none();
                return Err(out(
                    &format!("{}:{what}", if lost { "later_work_lost_after_reopen" } else { "state_differs_after_reopen" }),
                    detail,
                ));
            }
        }
        Err(e) => return Err(out("reopened_file_unreadable", e)),
    }
    rep.count("reopen_ok");
    Ok(())
}

impl CaseEngine for C32 {
    fn property(&self) -> &'static str {
        "C32"
    }
    fn rule(&self) -> String {
        "generated histories of valid mutating queries on DbImpl<MonStorage<FileStorage>> and DbImpl<MonStorage<FileStorageMemoryMapped>>; a \
         fault-free pass counts the write/resize calls of every query, then for (query i, call k) the history is replayed to i-1 and the \
         k-th mutating storage call of query i fails once before reaching the real storage; oracle: (a) the query returns Err, (b) the \
         order-insensitive dump equals the dump before, (c) 5-15 further valid queries all succeed and the reference-model monitors hold, \
         (d) after drop the file reopens with plain DbFile and its exact dump equals the last dump. evaluations = fault points injected; \
         distinct = distinct (query kind, call position class, backend) tuples"
            .into()
    }
    fn cases(&self, args: &Args) -> usize {
        args.u64("n", if args.thorough() { 200 } else { 24 }) as usize
    }
    fn case_timeout_s(&self, _args: &Args) -> u64 {
        // no progress line for this long: a fault point takes milliseconds
        60
    }
    fn hang_cpu_seconds(&self) -> f64 {
        15.0
    }
    fn max_stuck_cases(&self) -> u64 {
        // queries that spin after an injected write / resize fault are part of the open finding KF-C32-1: they must
        // not end the exploration of the other fault points
        100_000
    }
    fn hang_signature(&self, progress: &str, frames: &[String]) -> Option<String> {
        // the database is unusable after the fault: the faulted query or one of the later ones does not return
        let first = frames.first()?;
        if !first.contains("agdb::") {
            return None;
        }
        let flush = progress
            .split("fault_at_call=")
            .nth(1)
            .and_then(|x| x.split_whitespace().next())
            .and_then(|x| x.parse::<i64>().ok())
            .map(|k| k >= FLUSH)
            .unwrap_or(false);
        Some(format!("{}database_unusable_after_fault:a_query_does_not_return", if flush { "flush_fault:" } else { "" }))
    }
    fn run_case(&self, args: &Args, case: usize, rep: &mut Report, progress: &dyn Fn(&str)) {
        let seed = derive(args.u64("seed", 1), &[tag("C32"), case as u64]);
        let scratch = args.str("scratch", "/verif/scratch/c32");
        let dir = vcore::scratch_dir(&scratch, &format!("c{case}"));
        let mapped = case % 2 == 1;
        let path = format!("{dir}/f.agdb");
        let qs = history(seed, 6 + (seed % 8) as usize);
        // fault-free pass: mutating calls per query
        let mut flush_counts: Vec<u64> = vec![];
        let counts: Vec<u64> = {
            let ctl = Ctl::new();
            let r = panicmon::catch(|| -> Option<(Vec<u64>, Vec<u64>)> {
                let mut counts = vec![];
                let mut flushes = vec![];
                let mut model = Model::default();
                if mapped {
                    let mut db = open::<FileStorageMemoryMapped>(&path, ctl.clone()).ok()?;
                    for q in &qs {
                        let before = ctl.mutating();
                        let fbefore = ctl.flushes.load(std::sync::atomic::Ordering::Relaxed);
                        let (r, _v) = exec_step(&mut db, &mut model, q);
                        r.ok()?;
                        counts.push(ctl.mutating() - before);
                        flushes.push(ctl.flushes.load(std::sync::atomic::Ordering::Relaxed) - fbefore);
                    }
                } else {
                    let mut db = open::<FileStorage>(&path, ctl.clone()).ok()?;
                    for q in &qs {
                        let before = ctl.mutating();
                        let fbefore = ctl.flushes.load(std::sync::atomic::Ordering::Relaxed);
                        let (r, _v) = exec_step(&mut db, &mut model, q);
                        r.ok()?;
                        counts.push(ctl.mutating() - before);
                        flushes.push(ctl.flushes.load(std::sync::atomic::Ordering::Relaxed) - fbefore);
                    }
                }
                Some((counts, flushes))
            });
            match r {
                Ok(Some((c, f))) => {
                    flush_counts = f;
                    c
                }
                _ => {
                    rep.inconclusive("fault-free pass failed (other properties' business)");
                    return;
                }
            }
        };
        rep.max("max_mutating_storage_calls_in_one_query", counts.iter().copied().max().unwrap_or(0) as i64);
        let every = args.thorough() || args.u64("every", 0) == 1;
        let mut fired: BTreeSet<String> = BTreeSet::new();
        for (i, n) in counts.iter().enumerate() {
            // every fault point (thorough) or a sample: first, second, last and every 4th
            let mut ks: Vec<i64> = (0..*n as i64).filter(|k| every || *k < 2 || *k == *n as i64 - 1 || *k % 4 == (case as i64 % 4)).collect();
            for f in 0..flush_counts.get(i).copied().unwrap_or(0) as i64 {
                ks.push(FLUSH + f);
            }
            for k in ks {
                progress(&format!("{} query={i} fault_at_call={k} of {n}", qs[i].kind()));
                rep.eval();
                let pos = if k >= FLUSH { "flush" } else if k == 0 { "first" } else if k == *n as i64 - 1 { "last" } else { "middle" };
                if k >= FLUSH {
                    rep.count("flush_faults");
                }
                rep.distinct_hash(tag(&format!("{}|{pos}|{mapped}", qs[i].kind())));
                rep.count(&format!("faulted_{}", qs[i].kind()));
                let r = panicmon::catch(|| {
                    if mapped {
                        one_fault::<FileStorageMemoryMapped>(&path, &qs, i, k, seed ^ (i as u64 * 131 + k as u64), rep, None)
                    } else {
                        one_fault::<FileStorage>(&path, &qs, i, k, seed ^ (i as u64 * 131 + k as u64), rep, None)
                    }
                });
                let v = match r {
                    Ok(Ok(())) => None,
                    Ok(Err(o)) => Some((o.class, o.detail)),
                    Err(p) => Some((p.signature(), format!("panic {} at {}:{}", p.message, p.file, p.line))),
                };
                if let Some((class, detail)) = v {
                    if class.starts_with("harness_") {
                        rep.inconclusive(&format!("{class}: {detail}"));
                        continue;
                    }
                    rep.count("fault_points_violating");
                    let sig = if k >= FLUSH {
                        format!("C32:flush_fault:{class}:{}", qs[i].kind())
                    } else {
                        format!("C32:{class}:{}", qs[i].kind())
                    };
                    if fired.insert(sig.clone()) {
                        rep.violation(
                            &sig,
                            &format!("[{}] query {i} ({}) with storage call {k} of {n} failing: {detail}", if mapped { "mapped" } else { "file" }, qs[i].kind()),
                            json!({"engine":"c32","case":case,"seed":args.u64("seed",1),"tier":args.str("tier","quick"),"query_index":i,"fault_at_call":k,
                                   "queries": qs.iter().take(i + 1).map(|q| format!("{q:?}")).collect::<Vec<_>>()}),
                        );
                    }
                }
            }
        }
        // maintenance calls (optimize_storage, shrink_to_fit) after the whole history and after half of it,
        // with each of their first flushes failing; same consequences required as for a query
        for (i, m, f) in [qs.len(), qs.len() / 2].into_iter().flat_map(|i| (0..2u8).flat_map(move |m| (0..3i64).map(move |f| (i, m, f)))) {
            let name = if m == 0 { "optimize_storage" } else { "shrink_to_fit" };
            progress(&format!("{name} after query {i} flush_fault={f}"));
            rep.eval();
            rep.distinct_hash(tag(&format!("{name}|flush|{mapped}")));
            let r = panicmon::catch(|| {
                if mapped {
                    one_fault::<FileStorageMemoryMapped>(&path, &qs, i, FLUSH + f, seed ^ (i as u64 * 977 + f as u64 + m as u64 * 31), rep, Some(m))
                } else {
                    one_fault::<FileStorage>(&path, &qs, i, FLUSH + f, seed ^ (i as u64 * 977 + f as u64 + m as u64 * 31), rep, Some(m))
                }
            });
            let v = match r {
                Ok(Ok(())) => {
                    None
                }
                Ok(Err(o)) => Some((o.class, o.detail)),
                Err(p) => Some((p.signature(), format!("panic {} at {}:{}", p.message, p.file, p.line))),
            };
            if let Some((class, detail)) = v {
                if class.starts_with("harness_") {
                    rep.inconclusive(&format!("{class}: {detail}"));
                    continue;
                }
                rep.count("fault_points_violating");
                let sig = format!("C32:flush_fault:{class}:{name}");
                if fired.insert(sig.clone()) {
                    rep.violation(
                        &sig,
                        &format!("[{}] {name} after query {i} with its flush {f} failing: {detail}", if mapped { "mapped" } else { "file" }),
                        json!({"engine":"c32","case":case,"seed":args.u64("seed",1),"tier":args.str("tier","quick"),"query_index":i,"maintenance":name,"flush":f,
                               "queries": qs.iter().take(i).map(|q| format!("{q:?}")).collect::<Vec<_>>()}),
                    );
                }
            }
        }
        if case == 0 {
            rep.sample(|| json!({"history": qs.iter().map(|q| format!("{q:?}")).collect::<Vec<_>>(), "mutating_calls_per_query": counts}));
        }
        let _ = std::fs::remove_dir_all(&dir);
    }
    fn finish(&self, args: &Args, rep: &mut Report) {
        rep.require("faults_injected", 200);
        rep.require("maintenance_flush_faults_injected", 10);
        let _ = std::fs::remove_dir_all(args.str("scratch", "/verif/scratch/c32"));
    }
}
