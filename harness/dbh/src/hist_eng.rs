//! History engine (C08, C09, C10, C11, C13, C18 state part): generated query
//! histories executed on the real database, every query monitored against the
//! reference model, the full canonical dump compared after every query.

use agdb::DbAny;
use agdb::DbError;
use agdb::DbFile;
use agdb::DbImpl;
use agdb::DbMemory;
use agdb::QueryResult;
use agdb::StorageData;
use serde_json::json;
use vcore::Args;
use vcore::dump;
use vcore::dump::Probe;
use vcore::genq::ALIASES;
use vcore::genq::Gen;
use vcore::genq::GenCfg;
use vcore::model::Model;
use vcore::model::MutQ;
use vcore::panicmon;
use vcore::report::Report;
use vcore::rng::derive;
use vcore::rng::tag;
use vcore::workers::CaseEngine;

/// which property a monitor class speaks for
pub fn prop_of(class: &str) -> &'static str {
    let c = class;
    if c.starts_with("failed_query_changed_state_edge_to_missing_node") {
        return "C08";
    }
    // "no effect after a failure / rollback" classes are attributed by *what* changed
    // (C13 has its own engine and owns all of them there)
    let c = if c.starts_with("failed_query_changed_state_generic:") || c.starts_with("rollback:") {
        c.split_once(':').map(|x| x.1).unwrap_or(c)
    } else {
        c
    };
    if c.contains("alias") {
        "C10"
    } else if c.contains("index") {
        "C11"
    } else if c.contains("propert") || c.contains("key") || c.contains("insert_values") || c.contains("remove_values") {
        "C09"
    } else if c.starts_with("element_order") {
        "C18"
    } else {
        "C08"
    }
}

pub fn probe() -> Probe {
    Probe {
        aliases: ALIASES.iter().map(|s| s.to_string()).chain(["no_such_alias".to_string()]).collect(),
        values: vcore::genq::value_pool(),
    }
}

#[derive(Debug, Clone)]
pub struct Viol {
    pub class: String,
    pub detail: String,
}

fn viol(class: &str, detail: String) -> Viol {
    Viol {
        class: class.to_string(),
        detail,
    }
}

fn reason_class(reason: &str) -> &'static str {
    if reason.contains("alias") {
        "alias"
    } else if reason.contains("index") {
        "index"
    } else if reason.contains("edge origin") || reason.contains("edge destination") {
        "edge_to_missing_node"
    } else {
        "generic"
    }
}

/// Executes `q` on the database and the model. Returns the implementation result and the
/// first monitor that fired.
pub fn exec_step<S: StorageData>(
    db: &mut DbImpl<S>,
    model: &mut Model,
    q: &MutQ,
) -> (Result<QueryResult, DbError>, Option<Viol>) {
    let must_fail = match model.apply(q, None) {
        Err(mf) => Some(mf.0),
        Ok(_) => None,
    };
    let aq = q.to_agdb();
    let res = aq.exec(db);
    let undecided = must_fail.as_deref().map(|r| r.starts_with("undecided")).unwrap_or(false);
    let must_fail = if undecided { None } else { must_fail };
    if undecided && res.is_err() {
        return (res, None);
    }
    let v = match (&res, &must_fail) {
        (Ok(r), None) => match model.apply(q, Some(r)) {
            Ok(Ok(())) => None,
            Ok(Err(w)) => Some(viol(&format!("{}:{}", w.what, q.kind()), w.detail)),
            Err(mf) => Some(viol(&format!("must_fail_{}:{}", reason_class(&mf.0), q.kind()), mf.0)),
        },
        (Ok(_), Some(reason)) => Some(viol(
            &format!("accepted_but_must_fail_{}:{}", reason_class(reason), q.kind()),
            format!("query succeeded although the documented semantics reject it ({reason})"),
        )),
        (Err(e), None) => Some(viol(
            &format!("rejected_but_valid:{}", q.kind()),
            format!("query failed although it is valid on the current state: {}", e.description),
        )),
        (Err(_), Some(_)) => None,
    };
    (res, v)
}

/// compares the database with the model; after a failed query (`after_failure`) the order of
/// properties / edges may differ and is adopted
pub fn check_state<S: StorageData>(
    db: &DbImpl<S>,
    model: &mut Model,
    probe: &Probe,
    after_failure: Option<&str>,
) -> Option<Viol> {
    let d = match dump::dump(db, probe) {
        Ok(d) => d,
        Err(e) => return Some(viol("dump_failed", e)),
    };
    let want = dump::expected(model, probe);
    match after_failure {
        None => dump::diff(&d, &want, true).map(|(what, detail)| {
            let what = if what == "element_ids" && sorted(&d.order) == sorted(&want.order) {
                "element_order".to_string()
            } else {
                what
            };
            viol(&what, format!("database vs model: {detail}"))
        }),
        Some(reason) => {
            if let Some((what, detail)) = dump::diff(&d, &want, false) {
                return Some(viol(
                    &format!("failed_query_changed_state_{}:{what}", reason_class(reason)),
                    format!("after a failed query the database differs from the state before it: {detail}"),
                ));
            }
            if !dump::adopt_orders(model, &d) {
                return Some(viol("failed_query_changed_state_generic:orders", "orders are not permutations".into()));
            }
            None
        }
    }
}

fn sorted(v: &[i64]) -> Vec<i64> {
    let mut x = v.to_vec();
    x.sort();
    x
}

pub fn weights_for(prop: &str) -> GenCfg {
    let mut c = GenCfg::default();
    match prop {
        // nodes, nodes_ids, edges, edges_ids, aliases, values, index, rm_index, remove, rm_aliases, rm_values
        "C08" => c.w = [16, 3, 24, 3, 3, 6, 1, 1, 18, 1, 2],
        "C09" => c.w = [10, 8, 10, 8, 2, 30, 1, 1, 8, 1, 14],
        "C10" => c.w = [14, 10, 6, 1, 24, 8, 0, 0, 12, 10, 1],
        "C11" => c.w = [10, 6, 10, 5, 1, 26, 8, 5, 12, 1, 12],
        "C18" => c.w = [18, 2, 18, 2, 2, 6, 1, 1, 22, 1, 2],
        _ => {}
    }
    c
}

pub enum AnyDb {
    Mem(DbMemory),
    File(DbFile),
    Mapped(agdb::Db),
    AnyMem(DbAny),
    AnyFile(DbAny),
    AnyMapped(DbAny),
}

pub const KINDS: [&str; 6] = ["memory", "file", "mapped", "any_memory", "any_file", "any_mapped"];

pub fn open(kind: &str, path: &str) -> Result<AnyDb, DbError> {
    Ok(match kind {
        "memory" => AnyDb::Mem(DbMemory::new(path)?),
        "file" => AnyDb::File(DbFile::new(path)?),
        "mapped" => AnyDb::Mapped(agdb::Db::new(path)?),
        "any_memory" => AnyDb::AnyMem(DbAny::new_memory(path)?),
        "any_file" => AnyDb::AnyFile(DbAny::new_file(path)?),
        _ => AnyDb::AnyMapped(DbAny::new_mapped(path)?),
    })
}

#[macro_export]
macro_rules! with_db {
    ($any:expr, $db:ident, $body:expr) => {
        match $any {
            $crate::hist_eng::AnyDb::Mem($db) => $body,
            $crate::hist_eng::AnyDb::File($db) => $body,
            $crate::hist_eng::AnyDb::Mapped($db) => $body,
            $crate::hist_eng::AnyDb::AnyMem($db) => $body,
            $crate::hist_eng::AnyDb::AnyFile($db) => $body,
            $crate::hist_eng::AnyDb::AnyMapped($db) => $body,
        }
    };
}

pub fn cleanup(path: &str) {
    let _ = std::fs::remove_file(path);
    let _ = std::fs::remove_file(crate::storage_eng::wal_name(path));
}

pub struct Hist {
    pub prop: &'static str,
}

fn run_history<S: StorageData>(
    db: &mut DbImpl<S>,
    prop: &str,
    seed: u64,
    len: usize,
    rep: &mut Report,
    trace: &mut Vec<String>,
    progress: &dyn Fn(&str),
) -> Option<Viol> {
    let mut model = Model::default();
    let mut g = Gen::new(seed, weights_for(prop));
    let pr = probe();
    for step in 0..len {
        progress(&format!("step {step}"));
        if g.rng.chance(1, 9) {
            // a mutable transaction that is rolled back: the state (indexes included) must not change
            let k = 1 + g.rng.usize(5);
            let mut scratch = model.clone();
            let mut tx_trace = vec![];
            let r: Result<(), DbError> = db.transaction_mut(|t| {
                for _ in 0..k {
                    let q = g.next(&scratch);
                    tx_trace.push(format!("tx(rolled back) {q:?}"));
                    match q.to_agdb().exec_tx(t) {
                        Ok(r) => {
                            let _ = scratch.apply(&q, Some(&r));
                        }
                        Err(e) => return Err(e),
                    }
                }
                Err(DbError::db(agdb::DbErrorType::NotAllowed, "verif: roll back"))
            });
            trace.extend(tx_trace);
            rep.eval();
            rep.count("rolled_back_transactions");
            if r.is_ok() {
                return Some(viol("rollback:returned_ok", "rolled back transaction returned Ok".into()));
            }
            if let Some(v) = check_state(db, &mut model, &pr, Some("generic")) {
                let what = v.class.rsplit(':').next().unwrap_or("").to_string();
                return Some(viol(&format!("rollback:{what}"), v.detail));
            }
            continue;
        }
        let q = g.next(&model);
        trace.push(format!("{q:?}"));
        rep.count(&format!("q_{}", q.kind()));
        let before_nodes = model.nodes().len();
        let (res, v) = exec_step(db, &mut model, &q);
        rep.eval();
        if let Some(v) = v {
            return Some(v);
        }
        match &res {
            Ok(_) => rep.count("queries_ok"),
            Err(_) => rep.count("queries_rejected"),
        }
        let after_failure = if res.is_err() {
            Some(model.apply(&q, None).err().map(|m| m.0).unwrap_or_default())
        } else {
            None
        };
        // feature counters
        if model.nodes().len() > before_nodes + 64 {
            rep.count("feature_burst_over_64_nodes");
        }
        if model.elems.values().any(|e| e.values.len() > 64) {
            rep.count("feature_element_with_over_64_keys");
        }
        if model.elems.values().any(|e| e.from != 0 && e.from == e.to) {
            rep.count("feature_self_loop_present");
        }
        let big = model.elems.len() > 60;
        if !big || step % 10 == 0 || after_failure.is_some() {
            if let Some(v) = check_state(db, &mut model, &pr, after_failure.as_deref()) {
                return Some(v);
            }
            rep.count("full_state_comparisons");
        }
        rep.distinct_hash(tag(&format!(
            "{}|{}|{}|{}|{}",
            q.kind(),
            res.is_ok(),
            model.nodes().len().min(3),
            model.edges().len().min(3),
            model.aliases.len().min(2)
        )));
    }
    if let Some(v) = check_state(db, &mut model, &pr, None) {
        return Some(v);
    }
    rep.max("max_elements_in_a_history", model.elems.len() as i64);
    None
}

impl CaseEngine for Hist {
    fn property(&self) -> &'static str {
        self.prop
    }
    fn rule(&self) -> String {
        format!(
            "seeded hostile query histories (weights for {}) on DbMemory/DbFile/Db/DbAny; every mutating query is predicted by \
             the reference model (must-fail vs effect, ids adopted), and after every query the full canonical dump (elements, \
             endpoints, properties in order, keys, key counts, aliases both ways, edge counts, adjacency order, index listing and \
             contents) is compared with the model; only monitor classes belonging to {} are verdicts of this check. \
             evaluations = queries executed; distinct = distinct (query kind, outcome, capped node/edge/alias counts) tuples",
            self.prop, self.prop
        )
    }
    fn cases(&self, args: &Args) -> usize {
        args.u64("n", if args.thorough() { 6000 } else { 320 }) as usize
    }
    fn case_timeout_s(&self, _args: &Args) -> u64 {
        180
    }
    fn run_case(&self, args: &Args, case: usize, rep: &mut Report, progress: &dyn Fn(&str)) {
        let seed = derive(args.u64("seed", 1), &[tag(self.prop), tag("hist"), case as u64]);
        let len = args.u64("len", if args.thorough() { 160 } else { 70 }) as usize;
        let scratch = args.str("scratch", &format!("/verif/scratch/hist_{}", self.prop));
        let _ = std::fs::create_dir_all(&scratch);
        let kind = KINDS[case % KINDS.len()];
        let path = format!("{scratch}/h{case}.agdb");
        cleanup(&path);
        let mut trace = vec![];
        let r = panicmon::catch(|| {
            let any = open(kind, &path).map_err(|e| viol("open_failed", format!("{e:?}")));
            match any {
                Ok(mut any) => with_db!(&mut any, db, run_history(db, self.prop, seed, len, rep, &mut trace, progress)),
                Err(v) => Some(v),
            }
        });
        cleanup(&path);
        let v = match r {
            Ok(v) => v,
            Err(p) => Some(viol(
                &p.signature(),
                format!("panic: {} at {}:{}", p.message, p.file, p.line),
            )),
        };
        if let Some(v) = v {
            let owner = if v.class.starts_with("panic:") { self.prop } else { prop_of(&v.class) };
            let last: Vec<&String> = trace.iter().rev().take(6).collect();
            let replay = json!({"engine": format!("hist_{}", self.prop.to_lowercase()), "case": case, "seed": args.u64("seed", 1),
                "tier": args.str("tier", "quick"), "backend": kind, "queries_executed": trace.len(),
                "last_queries_newest_first": last});
            if owner == self.prop {
                rep.violation(&format!("{}:{}", self.prop, v.class), &format!("[{kind}] {}", v.detail), replay);
            } else {
                rep.count(&format!("observed_for_other_property_{owner}"));
                rep.extra
                    .entry("observations_for_other_properties".into())
                    .or_insert_with(|| json!([]))
                    .as_array_mut()
                    .map(|a| {
                        if a.len() < 5 {
                            a.push(json!({"property": owner, "class": v.class, "detail": v.detail}))
                        }
                    });
            }
        }
        if case < 2 {
            rep.sample(|| json!({"case": case, "backend": kind, "first_queries": trace.iter().take(8).collect::<Vec<_>>()}));
        }
    }
    fn finish(&self, args: &Args, rep: &mut Report) {
        rep.require("full_state_comparisons", 100);
        rep.require("queries_ok", 100);
        rep.require("queries_rejected", 10);
        rep.require("rolled_back_transactions", 10);
        let _ = std::fs::remove_dir_all(args.str("scratch", &format!("/verif/scratch/hist_{}", self.prop)));
    }
}

// ---------------------------------------------------------------------------
// C13: failed transactions / failed queries leave no observable effect
// ---------------------------------------------------------------------------

pub struct C13;

fn run_c13<S: StorageData>(
    db: &mut DbImpl<S>,
    seed: u64,
    rounds: usize,
    rep: &mut Report,
    trace: &mut Vec<String>,
) -> Option<Viol> {
    let mut model = Model::default();
    let mut cfg = GenCfg::default();
    cfg.w = [12, 6, 14, 5, 10, 18, 4, 3, 12, 5, 8];
    let mut g = Gen::new(seed, cfg);
    let pr = probe();
    for _round in 0..rounds {
        // a few committed queries to move the state along
        for _ in 0..1 + g.rng.usize(4) {
            let q = g.next(&model);
            trace.push(format!("commit {q:?}"));
            let (res, _v) = exec_step(db, &mut model, &q);
            // semantic disagreements are other properties' business; resynchronise on them
            if _v.is_some() {
                rep.count("resync_after_foreign_observation");
                return None;
            }
            if res.is_err() {
                // single failing query: also a C13 subject
                rep.eval();
                rep.count("failed_single_queries");
                if let Some(v) = check_state(db, &mut model, &pr, Some("generic")) {
                    return Some(viol(
                        &format!("failed_query:{}:{}", q.kind(), v.class.rsplit(':').next().unwrap_or("")),
                        v.detail,
                    ));
                }
            }
        }
        // a transaction that is rolled back
        let k = 1 + g.rng.usize(8);
        let mut scratch = model.clone();
        let mut kinds: Vec<&'static str> = vec![];
        let mut tx_trace = vec![];
        let mut stopped_by_query_error = false;
        let r: Result<(), DbError> = db.transaction_mut(|t| {
            for _ in 0..k {
                let q = g.next(&scratch);
                tx_trace.push(format!("tx {q:?}"));
                kinds.push(q.kind());
                match q.to_agdb().exec_tx(t) {
                    Ok(r) => {
                        // keep the scratch model in step when the semantics agree; otherwise keep going blind
                        let _ = scratch.apply(&q, Some(&r));
                    }
                    Err(e) => {
                        stopped_by_query_error = true;
                        return Err(e);
                    }
                }
            }
            Err(DbError::db(agdb::DbErrorType::NotAllowed, "verif: roll back"))
        });
        trace.extend(tx_trace);
        rep.eval();
        rep.count(if stopped_by_query_error { "transactions_failed_by_query" } else { "transactions_failed_by_closure" });
        if r.is_ok() {
            return Some(viol("rollback_returned_ok", "transaction closure returned Err but transaction_mut returned Ok".into()));
        }
        let mut ks = kinds.clone();
        ks.sort();
        ks.dedup();
        rep.distinct_hash(tag(&ks.join("+")));
        for k in &kinds {
            rep.count(&format!("rolled_back_{k}"));
        }
        if let Some(v) = check_state(db, &mut model, &pr, Some("generic")) {
            let what = v.class.rsplit(':').next().unwrap_or("").to_string();
            return Some(viol(&format!("rollback:{what}"), format!("transaction of [{}] rolled back: {}", ks.join("+"), v.detail)));
        }
    }
    None
}

impl CaseEngine for C13 {
    fn property(&self) -> &'static str {
        "C13"
    }
    fn rule(&self) -> String {
        "histories alternating committed queries with mutable transactions of 1-8 generated queries (value replacement, alias \
         re-assignment and stealing, node removal with edges, index create/remove, bulk inserts) whose closure returns Err, or \
         which stop at a failing query; plus single queries that fail after partial work. After each, the order-insensitive \
         canonical dump must equal the dump before. evaluations = rolled-back transactions + failed single queries; distinct = \
         distinct sets of query kinds inside a rolled-back transaction"
            .into()
    }
    fn cases(&self, args: &Args) -> usize {
        args.u64("n", if args.thorough() { 6000 } else { 400 }) as usize
    }
    fn case_timeout_s(&self, _args: &Args) -> u64 {
        180
    }
    fn run_case(&self, args: &Args, case: usize, rep: &mut Report, _p: &dyn Fn(&str)) {
        let seed = derive(args.u64("seed", 1), &[tag("C13"), case as u64]);
        let rounds = args.u64("rounds", if args.thorough() { 30 } else { 12 }) as usize;
        let scratch = args.str("scratch", "/verif/scratch/c13");
        let _ = std::fs::create_dir_all(&scratch);
        let kind = KINDS[case % 3];
        let path = format!("{scratch}/h{case}.agdb");
        cleanup(&path);
        let mut trace = vec![];
        let r = panicmon::catch(|| match open(kind, &path) {
            Ok(mut any) => with_db!(&mut any, db, run_c13(db, seed, rounds, rep, &mut trace)),
            Err(e) => Some(viol("open_failed", format!("{e:?}"))),
        });
        cleanup(&path);
        let v = match r {
            Ok(v) => v,
            Err(p) => Some(viol(&p.signature(), format!("panic: {} at {}:{}", p.message, p.file, p.line))),
        };
        if let Some(v) = v {
            let last: Vec<&String> = trace.iter().rev().take(12).collect();
            rep.violation(
                &format!("C13:{}", v.class),
                &format!("[{kind}] {}", v.detail),
                json!({"engine": "c13", "case": case, "seed": args.u64("seed", 1), "tier": args.str("tier", "quick"),
                       "backend": kind, "last_steps_newest_first": last}),
            );
        }
        if case < 2 {
            rep.sample(|| json!({"case": case, "backend": kind, "first_steps": trace.iter().take(10).collect::<Vec<_>>()}));
        }
    }
    fn finish(&self, args: &Args, rep: &mut Report) {
        rep.require("transactions_failed_by_closure", 50);
        rep.require("transactions_failed_by_query", 20);
        rep.require("failed_single_queries", 20);
        for k in ["insert_values", "insert_aliases", "remove", "insert_index", "remove_index", "insert_edges"] {
            rep.require(&format!("rolled_back_{k}"), 5);
        }
        let _ = std::fs::remove_dir_all(args.str("scratch", "/verif/scratch/c13"));
    }
}
