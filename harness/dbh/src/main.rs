//! dbh — embedded-database engines. `dbh <engine> --seed N --tier quick|thorough --out FILE`

mod storage_eng;

use vcore::Args;
use vcore::alloccap::CapAlloc;
use vcore::report::Report;

#[global_allocator]
static ALLOC: CapAlloc = CapAlloc;

fn drive(e: &dyn vcore::workers::CaseEngine, args: &Args) -> Report {
    match vcore::workers::drive(e, args) {
        Some(r) => r,
        None => std::process::exit(0),
    }
}

fn main() {
    let args = Args::parse(std::env::args().skip(1));
    let engine = args.pos.first().cloned().unwrap_or_default();
    vcore::panicmon::install();
    let out = args.str("out", "");
    let rep: Report = match engine.as_str() {
        "c01" => drive(&storage_eng::C01, &args),
        "c04" => drive(&storage_eng::C04, &args),
        "replay" => {
            let path = args.pos.get(1).cloned().unwrap_or_default();
            let text = std::fs::read_to_string(&path).expect("read replay file");
            let v: serde_json::Value = serde_json::from_str(&text).expect("parse replay file");
            let mut rep = Report::new(v["property"].as_str().unwrap_or("?"), "replay of one witness");
            vcore::panicmon::set_quiet(false);
            let w = &v["replay"];
            match w["engine"].as_str().unwrap_or("") {
                "c01" | "c04" => storage_eng::replay(w, &mut rep),
                e => eprintln!("unknown replay engine {e}"),
            }
            for v in &rep.violations {
                println!("REPLAY-VIOLATION {} :: {}", v.signature, v.detail);
            }
            if rep.violations.is_empty() {
                println!("REPLAY-OK no violation reproduced");
            }
            rep
        }
        _ => {
            eprintln!("unknown engine '{engine}'");
            std::process::exit(2);
        }
    };
    if !out.is_empty() {
        rep.write(&out);
    } else {
        println!("{}", serde_json::to_string_pretty(&rep.to_json()).unwrap());
    }
}
