//! dbh — embedded-database engines. `dbh <engine> --seed N --tier quick|thorough --out FILE`

mod conc_eng;
mod corrupt_eng;
mod crash_eng;
mod derive_eng;
mod fault_eng;
mod hist_eng;
mod maint_eng;
mod search_eng;
mod ser_eng;
mod storage_eng;
mod term_eng;

use vcore::Args;
use vcore::alloccap::CapAlloc;
use vcore::report::Report;

#[global_allocator]
static ALLOC: CapAlloc = CapAlloc;

fn drive(e: &dyn vcore::workers::CaseEngine, args: &Args) -> Report {
    match vcore::workers::drive(e, args) {
        Some(r) => r,
        None => std::process::exit(0),
    }
}

fn run_engine(engine: &str, args: &Args) -> Report {
    let args = args.clone();
    let args = &args;
    match engine {
        "c01" => drive(&storage_eng::C01, args),
        "c04" => drive(&storage_eng::C04, args),
        "hist_c08" => drive(&hist_eng::Hist { prop: "C08" }, args),
        "hist_c09" => drive(&hist_eng::Hist { prop: "C09" }, args),
        "hist_c10" => drive(&hist_eng::Hist { prop: "C10" }, args),
        "hist_c11" => drive(&hist_eng::Hist { prop: "C11" }, args),
        "hist_c18" => drive(&hist_eng::Hist { prop: "C18" }, args),
        "c13" => drive(&hist_eng::C13, args),
        "c19" => drive(&term_eng::C19, args),
        "c23" => drive(&conc_eng::C23, args),
        "c32" => drive(&fault_eng::C32, args),
        "c22" => drive(&derive_eng::C22, args),
        "c07" => drive(&corrupt_eng::C07, args),
        "c20" => drive(&ser_eng::C20, args),
        "c21" => drive(&ser_eng::C21, args),
        "c05" => drive(&maint_eng::C05, args),
        "c06" => drive(&maint_eng::C06, args),
        "c12" => drive(&maint_eng::C12, args),
        "crash_c02" => drive(&crash_eng::Crash { prop: "C02" }, args),
        "crash_c03" => drive(&crash_eng::Crash { prop: "C03" }, args),
        "c14" => drive(&search_eng::C14, args),
        "c15" => drive(&search_eng::C15, args),
        "c16" => drive(&search_eng::C16, args),
        "c17" => drive(&search_eng::C17, args),
        "c18s" => drive(&search_eng::C18S, args),
        _ => {
            eprintln!("unknown engine '{engine}'");
            std::process::exit(2);
        }
    }
}

fn main() {
    let args = Args::parse(std::env::args().skip(1));
    let engine = args.pos.first().cloned().unwrap_or_default();
    vcore::panicmon::install();
    let out = args.str("out", "");
    let rep: Report = match engine.as_str() {
        "replay" => {
            let path = args.pos.get(1).cloned().unwrap_or_default();
            let text = std::fs::read_to_string(&path).expect("read replay file");
            let v: serde_json::Value = serde_json::from_str(&text).expect("parse replay file");
            let mut rep = Report::new(v["property"].as_str().unwrap_or("?"), "replay of one witness");
            vcore::panicmon::set_quiet(false);
            let w = &v["replay"];
            match w["engine"].as_str().unwrap_or("") {
                "c01" | "c04" if w.get("ops").is_some() => storage_eng::replay(w, &mut rep),
                e => {
                    // case-addressed witness: re-run that one case in-process
                    let mut a = vec![e.to_string()];
                    for k in ["case", "seed"] {
                        a.push(format!("--{k}"));
                        a.push(w[k].as_u64().unwrap_or(0).to_string());
                    }
                    a.push("--tier".into());
                    a.push(w["tier"].as_str().unwrap_or("quick").to_string());
                    let args2 = Args::parse(a.into_iter());
                    rep = run_engine(e, &args2);
                }
            }
            for v in &rep.violations {
                println!("REPLAY-VIOLATION {} :: {}", v.signature, v.detail);
            }
            if rep.violations.is_empty() {
                println!("REPLAY-OK no violation reproduced");
            }
            rep
        }
        e => run_engine(e, &args),
    };
    if !out.is_empty() {
        rep.write(&out);
    } else {
        println!("{}", serde_json::to_string_pretty(&rep.to_json()).unwrap());
    }
}
