//! C05 (maintenance operations preserve the database), C06 (all storage variants
//! give identical results), C12 (every stored value reads back bit-for-bit).

use crate::hist_eng::AnyDb;
use crate::hist_eng::KINDS;
use crate::hist_eng::cleanup;
use crate::hist_eng::exec_step;
use crate::hist_eng::open;
use crate::hist_eng::probe;
use crate::with_db;
use agdb::DbError;
use agdb::DbF64;
use agdb::DbValue;
use agdb::QueryBuilder;
use agdb::QueryResult;
use serde_json::json;
use vcore::Args;
use vcore::dump;
use vcore::dump::Dump;
use vcore::genq::Gen;
use vcore::genq::GenCfg;
use vcore::model::Ids;
use vcore::model::Model;
use vcore::model::MutQ;
use vcore::model::QId;
use vcore::model::Vals;
use vcore::panicmon;
use vcore::report::Report;
use vcore::rng::Rng;
use vcore::rng::derive;
use vcore::rng::tag;
use vcore::workers::CaseEngine;

fn dump_any(any: &AnyDb) -> Result<Dump, String> {
    with_db!(any, db, dump::dump(db, &probe()))
}

fn index_heavy() -> GenCfg {
    let mut c = GenCfg::default();
    // nodes, nodes_ids, edges, edges_ids, aliases, values, index, rm_index, remove, rm_aliases, rm_values
    c.w = [12, 4, 14, 4, 8, 20, 9, 5, 9, 3, 7];
    c.hostile_pct = 4;
    c
}

// ---------------------------------------------------------------------------
// C05
// ---------------------------------------------------------------------------

pub struct C05;

fn build_history(any: &mut AnyDb, seed: u64, len: usize, cfg: GenCfg) -> Result<Model, String> {
    let mut model = Model::default();
    let mut g = Gen::new(seed, cfg);
    for _ in 0..len {
        let q = g.next(&model);
        let v = with_db!(&mut *any, db, exec_step(db, &mut model, &q).1);
        if v.is_some() {
            return Err("other property's monitor fired while building the history".into());
        }
        if g.rng.chance(1, 12) {
            // a rolled back transaction in the history
            let mut scratch = model.clone();
            let _ = with_db!(&mut *any, db, db.transaction_mut(|t| -> Result<(), DbError> {
                for _ in 0..3 {
                    let q = g.next(&scratch);
                    if let Ok(r) = q.to_agdb().exec_tx(t) {
                        let _ = scratch.apply(&q, Some(&r));
                    }
                }
                Err(DbError::db(agdb::DbErrorType::NotAllowed, "verif: roll back"))
            }));
            let d = dump_any(any)?;
            dump::adopt_orders(&mut model, &d);
        }
    }
    Ok(model)
}

impl CaseEngine for C05 {
    fn property(&self) -> &'static str {
        "C05"
    }
    fn rule(&self) -> String {
        "generated query history (index-heavy weights, rolled back transactions included) on Db / DbFile / DbMemory / DbAny, exact \
         canonical dump D0 (ids, result order, properties in order, aliases, index listing in order and contents, adjacency order), \
         then a random sequence of: close+reopen as Db / DbFile / DbAny::new_file / DbAny::new_mapped, optimize_storage, shrink_to_fit, \
         backup (opened as Db, DbFile and DbMemory), copy (returned database and original), rename (+ reopen under the new name), \
         and further mutating queries between the maintenance steps (D0 is then re-taken from the live database: what is written \
         after an optimize / shrink / rename / reopen must survive the following ones); after every step the exact dump must equal D0. evaluations = maintenance \
         steps checked; distinct = distinct (step kind, database kind, previous step kind) tuples"
            .into()
    }
    fn cases(&self, args: &Args) -> usize {
        args.u64("n", if args.thorough() { 6000 } else { 400 }) as usize
    }
    fn case_timeout_s(&self, _args: &Args) -> u64 {
        300
    }
    fn run_case(&self, args: &Args, case: usize, rep: &mut Report, progress: &dyn Fn(&str)) {
        let seed = derive(args.u64("seed", 1), &[tag("C05"), case as u64]);
        let scratch = args.str("scratch", "/verif/scratch/c05");
        let dir = vcore::scratch_dir(&scratch, &format!("c{case}"));
        let steps_n = args.u64("steps", if args.thorough() { 30 } else { 12 }) as usize;
        let mut kind = ["mapped", "file", "memory", "any_file", "any_mapped", "any_memory"][case % 6].to_string();
        let mut path = format!("{dir}/db.agdb");
        let mut trace: Vec<String> = vec![format!("history on {kind}")];
        let r = panicmon::catch(|| -> Result<(), (String, String)> {
            let mut any = open(&kind, &path).map_err(|e| ("open_failed".to_string(), format!("{e:?}")))?;
            let mut cfg = index_heavy();
            cfg.bursts = case % 5 == 0;
            if build_history(&mut any, seed, 20 + (seed % 50) as usize, cfg).is_err() {
                rep.count("histories_skipped_other_property");
                return Ok(());
            }
            let mut d0 = dump_any(&any).map_err(|e| ("dump_failed".to_string(), e))?;
            rep.max("max_elements", d0.elems.len() as i64);
            rep.max("max_indexes", d0.indexes.len() as i64);
            let mut rng = Rng::new(seed ^ 0xabc);
            let mut prev = "history".to_string();
            let is_mem = |k: &str| k.contains("memory");
            let mut n_file = 0;
            for step in 0..steps_n {
                progress(&format!("maintenance step {step}"));
                let op = rng.below(11);
                let name;
                let mut new_d0 = None;
                let check = |any: &AnyDb, what: &str| -> Result<(), (String, String)> {
                    let d = dump_any(any).map_err(|e| (format!("read_failed_after:{what}"), e))?;
                    match dump::diff(&d, &d0, true) {
                        None => Ok(()),
                        Some((w, detail)) => Err((format!("changed_by:{what}:{w}"), detail)),
                    }
                };
                match op {
                    0 | 1 => {
                        // close and reopen, possibly as another file-backed variant
                        if is_mem(&kind) {
                            // memory: persist through backup, reopen with DbMemory::new
                            n_file += 1;
                            let p = format!("{dir}/mem{n_file}.agdb");
                            with_db!(&any, db, db.backup(&p)).map_err(|e| ("backup_failed".to_string(), format!("{e:?}")))?;
                            name = "memory_backup_and_reload".to_string();
                            trace.push(name.clone());
                            drop(any);
                            any = open(&kind, &p).map_err(|e| ("reopen_failed:memory_backup".to_string(), format!("{e:?}")))?;
                            path = p;
                        } else {
                            let nk = ["mapped", "file", "any_file", "any_mapped"][rng.usize(4)].to_string();
                            name = format!("reopen_as_{nk}");
                            trace.push(name.clone());
                            drop(any);
                            any = open(&nk, &path).map_err(|e| (format!("reopen_failed:{nk}"), format!("{e:?}")))?;
                            kind = nk;
                        }
                        check(&any, &name)?;
                    }
                    2 => {
                        name = "optimize_storage".to_string();
                        trace.push(name.clone());
                        with_db!(&mut any, db, db.optimize_storage()).map_err(|e| ("optimize_failed".to_string(), format!("{e:?}")))?;
                        check(&any, &name)?;
                    }
                    3 => {
                        name = "shrink_to_fit".to_string();
                        trace.push(name.clone());
                        with_db!(&mut any, db, db.shrink_to_fit()).map_err(|e| ("shrink_failed".to_string(), format!("{e:?}")))?;
                        check(&any, &name)?;
                    }
                    4 | 5 => {
                        n_file += 1;
                        let p = format!("{dir}/backup{n_file}.agdb");
                        with_db!(&any, db, db.backup(&p)).map_err(|e| ("backup_failed".to_string(), format!("{e:?}")))?;
                        let bk = ["mapped", "file", "memory", "any_file"][rng.usize(4)];
                        name = format!("backup_opened_as_{bk}");
                        trace.push(name.clone());
                        {
                            let b = open(bk, &p).map_err(|e| (format!("backup_open_failed:{bk}"), format!("{e:?}")))?;
                            check(&b, &name)?;
                        }
                        cleanup(&p);
                        check(&any, "backup_original")?;
                    }
                    6 => {
                        n_file += 1;
                        let p = format!("{dir}/copy{n_file}.agdb");
                        name = "copy".to_string();
                        trace.push(name.clone());
                        {
                            let c = match &any {
                                AnyDb::Mem(db) => AnyDb::Mem(db.copy(&p).map_err(|e| ("copy_failed".to_string(), format!("{e:?}")))?),
                                AnyDb::File(db) => AnyDb::File(db.copy(&p).map_err(|e| ("copy_failed".to_string(), format!("{e:?}")))?),
                                AnyDb::Mapped(db) => AnyDb::Mapped(db.copy(&p).map_err(|e| ("copy_failed".to_string(), format!("{e:?}")))?),
                                AnyDb::AnyMem(db) => AnyDb::AnyMem(db.copy(&p).map_err(|e| ("copy_failed".to_string(), format!("{e:?}")))?),
                                AnyDb::AnyFile(db) => AnyDb::AnyFile(db.copy(&p).map_err(|e| ("copy_failed".to_string(), format!("{e:?}")))?),
                                AnyDb::AnyMapped(db) => AnyDb::AnyMapped(db.copy(&p).map_err(|e| ("copy_failed".to_string(), format!("{e:?}")))?),
                            };
                            check(&c, "copy_returned_database")?;
                        }
                        cleanup(&p);
                        check(&any, "copy_original")?;
                    }
                    7 => {
                        n_file += 1;
                        let p = format!("{dir}/renamed{n_file}.agdb");
                        name = "rename".to_string();
                        trace.push(name.clone());
                        with_db!(&mut any, db, db.rename(&p)).map_err(|e| ("rename_failed".to_string(), format!("{e:?}")))?;
                        check(&any, &name)?;
                        if !is_mem(&kind) {
                            drop(any);
                            any = open(&kind, &p).map_err(|e| ("reopen_failed:after_rename".to_string(), format!("{e:?}")))?;
                            check(&any, "reopen_after_rename")?;
                            path = p;
                        }
                    }
                    9 | 10 => {
                        // the history goes on between maintenance operations: whatever is written after an optimize /
                        // shrink / rename / reopen must survive the next ones just like the earlier content
                        name = "more_queries".to_string();
                        trace.push(name.clone());
                        let r = with_db!(&mut any, db, db.transaction_mut(|t| -> Result<(), agdb::DbError> {
                            let n = t.exec_mut(QueryBuilder::insert().nodes().count(2).values_uniform([("c05_extra", step as i64).into(), ("k0", "written between maintenance steps").into()]).query())?;
                            let ids: Vec<agdb::DbId> = n.elements.iter().map(|e| e.id).collect();
                            t.exec_mut(QueryBuilder::insert().edges().from(ids[0]).to(ids[1]).values_uniform([("c05_extra", step as i64).into()]).query())?;
                            t.exec_mut(QueryBuilder::insert().values([[("c05_extra", -1_i64).into()]]).ids(ids[0]).query())?;
                            Ok(())
                        }));
                        if r.is_err() {
                            rep.count("more_queries_failed_other_property");
                        }
                        new_d0 = Some(dump_any(&any).map_err(|e| ("dump_failed".to_string(), e))?);
                    }
                    _ => {
                        // read-only queries must not disturb anything either
                        name = "reads".to_string();
                        let _ = dump_any(&any);
                        check(&any, &name)?;
                    }
                }
                if let Some(d) = new_d0 {
                    d0 = d;
                }
                rep.eval();
                rep.count(&format!("step_{}", name.split("_as_").next().unwrap_or(&name)));
                rep.distinct_hash(tag(&format!("{name}|{kind}|{prev}")));
                prev = name;
                let _ = step;
            }
            Ok(())
        });
        let v = match r {
            Ok(Ok(())) => None,
            Ok(Err(x)) => Some(x),
            Err(p) => Some((p.signature(), format!("panic: {} at {}:{}", p.message, p.file, p.line))),
        };
        if let Some((class, detail)) = v {
            rep.violation(
                &format!("C05:{class}"),
                &format!("{detail}; steps: {:?}", trace.iter().rev().take(6).collect::<Vec<_>>()),
                json!({"engine":"c05","case":case,"seed":args.u64("seed",1),"tier":args.str("tier","quick"),"steps_oldest_first": trace}),
            );
        }
        if case < 2 {
            rep.sample(|| json!({"case": case, "steps": trace}));
        }
        let _ = std::fs::remove_dir_all(&dir);
    }
    fn finish(&self, args: &Args, rep: &mut Report) {
        for k in ["step_reopen", "step_optimize_storage", "step_shrink_to_fit", "step_backup_opened", "step_copy", "step_rename", "step_memory_backup_and_reload", "step_more_queries"] {
            rep.require(k, 20);
        }
        let _ = std::fs::remove_dir_all(args.str("scratch", "/verif/scratch/c05"));
    }
}

// ---------------------------------------------------------------------------
// C06
// ---------------------------------------------------------------------------

pub struct C06;

fn res_eq(a: &Result<QueryResult, DbError>, b: &Result<QueryResult, DbError>) -> bool {
    match (a, b) {
        (Ok(x), Ok(y)) => x.result == y.result && x.elements == y.elements,
        (Err(_), Err(_)) => true,
        _ => false,
    }
}

impl CaseEngine for C06 {
    fn property(&self) -> &'static str {
        "C06"
    }
    fn rule(&self) -> String {
        "the same generated history (valid, failing and hostile queries, rolled back transactions, occasional values of 70-200 KB and \
         bursts of thousands of nodes) executed in lock step on DbMemory, DbFile, Db, DbAny::new_memory, ::new_file, ::new_mapped; after \
         every query all six must return Ok with equal QueryResult (element order included) or all Err; every few steps and at the end \
         the exact canonical dumps must be equal. evaluations = (query, variant) executions; distinct = distinct (query kind, outcome) \
         pairs x feature flags"
            .into()
    }
    fn cases(&self, args: &Args) -> usize {
        args.u64("n", if args.thorough() { 5000 } else { 300 }) as usize
    }
    fn case_timeout_s(&self, _args: &Args) -> u64 {
        1800
    }
    fn hang_cpu_seconds(&self) -> f64 {
        // one step can be a burst of more than 8192 nodes with indexed values on the file-only storage, which takes
        // minutes of CPU in the dev profile: no CPU verdict here, only the (long) wall-clock watchdog
        f64::INFINITY
    }
    fn run_case(&self, args: &Args, case: usize, rep: &mut Report, progress: &dyn Fn(&str)) {
        let seed = derive(args.u64("seed", 1), &[tag("C06"), case as u64]);
        let scratch = args.str("scratch", "/verif/scratch/c06");
        let dir = vcore::scratch_dir(&scratch, &format!("c{case}"));
        let len = args.u64("len", if args.thorough() { 100 } else { 45 }) as usize;
        let mut trace: Vec<String> = vec![];
        let huge = case % 10 == 3;
        let many = case % 40 == 7;
        let r = panicmon::catch(|| -> Result<(), (String, String)> {
            let mut dbs: Vec<AnyDb> = vec![];
            for k in KINDS {
                dbs.push(open(k, &format!("{dir}/{k}.agdb")).map_err(|e| (format!("open_failed:{k}"), format!("{e:?}")))?);
            }
            let mut model = Model::default();
            let mut cfg = GenCfg::default();
            cfg.hostile_pct = 16;
            let mut g = Gen::new(seed, cfg);
            let compare_dumps = |dbs: &Vec<AnyDb>, at: &str| -> Result<(), (String, String)> {
                let d0 = dump_any(&dbs[0]).map_err(|e| ("read_failed:memory".to_string(), e))?;
                for (i, db) in dbs.iter().enumerate().skip(1) {
                    let d = dump_any(db).map_err(|e| (format!("read_failed:{}", KINDS[i]), e))?;
                    if let Some((w, detail)) = dump::diff(&d, &d0, true) {
                        return Err((format!("state_differs:{}:{w}", KINDS[i]), format!("{at}: {} vs memory: {detail}", KINDS[i])));
                    }
                }
                Ok(())
            };
            for step in 0..len {
                progress(&format!("step {step}"));
                let mut q = g.next(&model);
                if huge && step % 9 == 4 {
                    if let Some(n) = model.nodes().first().copied() {
                        let big = 70_000 + g.rng.usize(130_000);
                        let v = if g.rng.chance(1, 2) {
                            DbValue::from("x".repeat(big))
                        } else {
                            DbValue::from(vec![7_u8; big])
                        };
                        q = MutQ::InsertValues {
                            ids: Ids::List(vec![QId::Id(n)]),
                            values: Vals::Single(vec![(DbValue::from("big"), v)]),
                        };
                        rep.count("feature_value_over_64KiB");
                    }
                }
                if many && step == 3 {
                    q = MutQ::InsertNodes {
                        count: 8200 + g.rng.below(600),
                        aliases: vec![],
                        values: Vals::None,
                    };
                    rep.count("feature_burst_over_8192_nodes");
                }
                trace.push(format!("{q:?}").chars().take(300).collect());
                if trace.len() > 30 {
                    trace.remove(0);
                }
                let aq = q.to_agdb();
                let mut results = vec![];
                for db in dbs.iter_mut() {
                    results.push(with_db!(db, d, aq.exec(d)));
                    rep.eval();
                }
                for (i, r) in results.iter().enumerate().skip(1) {
                    if !res_eq(r, &results[0]) {
                        return Err((
                            format!("result_differs:{}:{}", KINDS[i], q.kind()),
                            format!("step {step}: {} returned {:?} but memory returned {:?}", KINDS[i], short(r), short(&results[0])),
                        ));
                    }
                }
                rep.distinct_hash(tag(&format!("{}|{}|{huge}|{many}", q.kind(), results[0].is_ok())));
                // keep the generator's model in step (ids come from the memory variant)
                match &results[0] {
                    Ok(r0) => {
                        if !matches!(model.apply(&q, Some(r0)), Ok(Ok(()))) {
                            rep.count("histories_stopped_other_property");
                            break;
                        }
                    }
                    Err(_) => {
                        let d = dump_any(&dbs[0]).map_err(|e| ("read_failed:memory".to_string(), e))?;
                        if !dump::adopt_orders(&mut model, &d) {
                            rep.count("histories_stopped_other_property");
                            break;
                        }
                    }
                }
                if g.rng.chance(1, 10) {
                    // the same rolled back transaction everywhere
                    let qs: Vec<MutQ> = (0..3).map(|_| g.next(&model)).collect();
                    for db in dbs.iter_mut() {
                        let _ = with_db!(db, d, d.transaction_mut(|t| -> Result<(), DbError> {
                            for q in &qs {
                                let _ = q.to_agdb().exec_tx(t);
                            }
                            Err(DbError::db(agdb::DbErrorType::NotAllowed, "verif: roll back"))
                        }));
                    }
                    rep.count("rolled_back_transactions");
                    compare_dumps(&dbs, "after rolled back transaction")?;
                    let d = dump_any(&dbs[0]).map_err(|e| ("read_failed:memory".to_string(), e))?;
                    dump::adopt_orders(&mut model, &d);
                }
                if step % 8 == 7 && model.elems.len() < 400 {
                    compare_dumps(&dbs, &format!("step {step}"))?;
                    rep.count("full_dump_comparisons");
                }
            }
            if model.elems.len() < 400 {
                compare_dumps(&dbs, "end")?;
                rep.count("full_dump_comparisons");
            } else {
                // too large for the full dump: compare the cheap global reads
                let q = QueryBuilder::search().elements().query();
                let base = with_db!(&dbs[0], d, d.exec(&q));
                for (i, db) in dbs.iter().enumerate().skip(1) {
                    let r = with_db!(db, d, d.exec(&q));
                    if !res_eq(&r, &base) {
                        return Err((format!("result_differs:{}:search_elements", KINDS[i]), "elements search differs".into()));
                    }
                }
                let ids: Vec<i64> = base.map(|r| r.elements.iter().map(|e| e.id.0).collect()).unwrap_or_default();
                for chunk in ids.chunks(500) {
                    let q = QueryBuilder::select().ids(chunk.to_vec()).query();
                    let base = with_db!(&dbs[0], d, d.exec(&q));
                    for (i, db) in dbs.iter().enumerate().skip(1) {
                        let r = with_db!(db, d, d.exec(&q));
                        if !res_eq(&r, &base) {
                            return Err((format!("result_differs:{}:select_ids", KINDS[i]), "select of all elements differs".into()));
                        }
                    }
                }
                rep.count("large_database_comparisons");
            }
            Ok(())
        });
        let v = match r {
            Ok(Ok(())) => None,
            Ok(Err(x)) => Some(x),
            Err(p) => Some((p.signature(), format!("panic: {} at {}:{}", p.message, p.file, p.line))),
        };
        if let Some((class, detail)) = v {
            rep.violation(
                &format!("C06:{class}"),
                &detail.chars().take(1500).collect::<String>(),
                json!({"engine":"c06","case":case,"seed":args.u64("seed",1),"tier":args.str("tier","quick"),"last_queries_oldest_first": trace}),
            );
        }
        if case < 2 {
            rep.sample(|| json!({"case": case, "last_queries": trace.iter().rev().take(5).collect::<Vec<_>>()}));
        }
        let _ = std::fs::remove_dir_all(&dir);
    }
    fn finish(&self, args: &Args, rep: &mut Report) {
        rep.require("full_dump_comparisons", 100);
        rep.require("rolled_back_transactions", 20);
        rep.require("feature_value_over_64KiB", 5);
        rep.require("feature_burst_over_8192_nodes", 1);
        let _ = std::fs::remove_dir_all(args.str("scratch", "/verif/scratch/c06"));
    }
}

fn short(r: &Result<QueryResult, DbError>) -> String {
    match r {
        Ok(r) => format!("Ok(result {}, {} elements, first ids {:?})", r.result, r.elements.len(), r.elements.iter().take(8).map(|e| e.id.0).collect::<Vec<_>>()),
        Err(e) => format!("Err({})", e.description),
    }
}

// ---------------------------------------------------------------------------
// C12
// ---------------------------------------------------------------------------

pub struct C12;

fn strings() -> Vec<String> {
    let mut v = vec![];
    let fillers = ["a", "é", "€", "😀", "ß", "中"];
    for len in 0..=40usize {
        // ascii
        v.push("x".repeat(len));
        // multi-byte characters straddling every byte offset: prefix of ascii + one wide char + suffix
        for f in &fillers[1..] {
            let w = f.len();
            if len >= w {
                let pre = (len - w).min(15usize.saturating_sub(w / 2));
                let mut s = "p".repeat(pre);
                s.push_str(f);
                s.push_str(&"s".repeat(len - w - pre));
                v.push(s);
            }
        }
    }
    // few characters, many bytes (character count < 16 <= byte count)
    v.push("😀".repeat(4));
    v.push("😀".repeat(5));
    v.push("中".repeat(5));
    v.push("中".repeat(6));
    v.push(format!("{}é", "a".repeat(14)));
    v.push(format!("{}é", "a".repeat(15)));
    v.push("\0".to_string());
    v.push("a\0b".to_string());
    v
}

fn floats() -> Vec<f64> {
    let mut v = vec![
        0.0,
        -0.0,
        1.0,
        -1.0,
        f64::MIN,
        f64::MAX,
        f64::MIN_POSITIVE,
        f64::EPSILON,
        f64::INFINITY,
        f64::NEG_INFINITY,
        f64::from_bits(1),                      // smallest subnormal
        f64::from_bits(0x000f_ffff_ffff_ffff),  // largest subnormal
        f64::from_bits(0x7ff8_0000_0000_0000),  // quiet NaN
        f64::from_bits(0xfff8_0000_0000_0000),  // negative quiet NaN
        f64::from_bits(0x7ff0_0000_0000_0001),  // signalling NaN, payload 1
        f64::from_bits(0x7ff4_0000_dead_beef),  // NaN with payload
        f64::from_bits(0xfff0_0000_0000_0001),
    ];
    v.push(std::f64::consts::PI);
    v
}

pub fn boundary_values() -> Vec<DbValue> {
    let mut v: Vec<DbValue> = vec![];
    for len in 0..=40usize {
        v.push(DbValue::Bytes((0..len).map(|i| (i * 7 + 1) as u8).collect()));
        v.push(DbValue::Bytes(vec![0; len]));
        v.push(DbValue::Bytes(vec![255; len]));
    }
    for s in strings() {
        v.push(DbValue::String(s));
    }
    let ints: Vec<i64> = vec![0, 1, -1, i64::MIN, i64::MIN + 1, i64::MAX, i64::MAX - 1, 255, 256, -256, 1 << 31, 1 << 32, -(1 << 32)];
    for i in &ints {
        v.push(DbValue::I64(*i));
    }
    let uints: Vec<u64> = vec![0, 1, u64::MAX, u64::MAX - 1, 1 << 63, (1 << 63) - 1, 255, 256, 1 << 32];
    for u in &uints {
        v.push(DbValue::U64(*u));
    }
    let fl = floats();
    for f in &fl {
        v.push(DbValue::F64(DbF64::from(*f)));
    }
    for n in 0..=5usize {
        v.push(DbValue::VecI64(ints.iter().cycle().skip(n).take(n).copied().collect()));
        v.push(DbValue::VecU64(uints.iter().cycle().skip(n).take(n).copied().collect()));
        v.push(DbValue::VecF64(fl.iter().cycle().skip(n * 3).take(n).map(|f| DbF64::from(*f)).collect()));
        v.push(DbValue::VecString(strings().into_iter().skip(n * 17).step_by(23).take(n).collect()));
    }
    v.push(DbValue::VecString(vec![String::new()]));
    v.push(DbValue::VecString(vec![String::new(), String::new()]));
    v
}

/// bitwise structural equality (f64 via to_bits)
pub fn bit_eq(a: &DbValue, b: &DbValue) -> bool {
    match (a, b) {
        (DbValue::F64(x), DbValue::F64(y)) => x.to_f64().to_bits() == y.to_f64().to_bits(),
        (DbValue::VecF64(x), DbValue::VecF64(y)) => {
            x.len() == y.len() && x.iter().zip(y).all(|(p, q)| p.to_f64().to_bits() == q.to_f64().to_bits())
        }
        (DbValue::Bytes(x), DbValue::Bytes(y)) => x == y,
        (DbValue::I64(x), DbValue::I64(y)) => x == y,
        (DbValue::U64(x), DbValue::U64(y)) => x == y,
        (DbValue::String(x), DbValue::String(y)) => x.as_bytes() == y.as_bytes(),
        (DbValue::VecI64(x), DbValue::VecI64(y)) => x == y,
        (DbValue::VecU64(x), DbValue::VecU64(y)) => x == y,
        (DbValue::VecString(x), DbValue::VecString(y)) => x == y,
        _ => false,
    }
}

pub fn random_value(rng: &mut Rng) -> DbValue {
    let len = rng.usize(41);
    match rng.below(9) {
        0 => DbValue::Bytes(rng.bytes(len)),
        1 => DbValue::I64(rng.next_u64() as i64),
        2 => DbValue::U64(rng.next_u64()),
        3 => DbValue::F64(DbF64::from(f64::from_bits(rng.next_u64()))),
        4 => {
            let mut s = String::new();
            while s.len() < len {
                let c = match rng.below(6) {
                    0 => char::from_u32(0x80 + rng.below(0x700) as u32),
                    1 => char::from_u32(0x800 + rng.below(0x5000) as u32),
                    2 => char::from_u32(0x1F600 + rng.below(0x40) as u32),
                    _ => char::from_u32(0x20 + rng.below(0x5f) as u32),
                };
                if let Some(c) = c {
                    s.push(c);
                }
            }
            DbValue::String(s)
        }
        5 => DbValue::VecI64((0..rng.usize(6)).map(|_| rng.next_u64() as i64).collect()),
        6 => DbValue::VecU64((0..rng.usize(6)).map(|_| rng.next_u64()).collect()),
        7 => DbValue::VecF64((0..rng.usize(6)).map(|_| DbF64::from(f64::from_bits(rng.next_u64()))).collect()),
        _ => DbValue::VecString((0..rng.usize(5)).map(|_| "é".repeat(rng.usize(12))).collect()),
    }
}

impl CaseEngine for C12 {
    fn property(&self) -> &'static str {
        "C12"
    }
    fn rule(&self) -> String {
        format!(
            "a finite boundary set enumerated completely ({} values: byte strings and strings of every length 0..40 incl. multi-byte \
             characters straddling the 15/16-byte inline limit and few-characters/many-bytes strings, i64/u64 extremes, f64 incl. both \
             zeros, infinities, subnormals and NaNs with distinct payloads and signs, every vector type with lengths 0..5) plus random \
             values (random bit patterns for floats); each value used as a property key and as a value on DbMemory, DbFile, Db and DbAny, \
             read back by select all / select by key / key listing, after close+reopen (file back-ends) and after backup -> DbMemory::new; \
             equality is bitwise (f64::to_bits). evaluations = (value, role, variant, read path) checks; distinct = distinct (type, \
             serialized length class, role) triples",
            boundary_values().len()
        )
    }
    fn cases(&self, args: &Args) -> usize {
        // case 0..4: the boundary set on each variant; the rest: random values
        4 + args.u64("random-cases", if args.thorough() { 800 } else { 60 }) as usize
    }
    fn run_case(&self, args: &Args, case: usize, rep: &mut Report, _p: &dyn Fn(&str)) {
        let seed = derive(args.u64("seed", 1), &[tag("C12"), case as u64]);
        let scratch = args.str("scratch", "/verif/scratch/c12");
        let dir = vcore::scratch_dir(&scratch, &format!("c{case}"));
        let kind = ["memory", "file", "mapped", "any_file"][case % 4];
        let values: Vec<DbValue> = if case < 4 {
            rep.exhaustive = true;
            boundary_values()
        } else {
            let mut rng = Rng::new(seed);
            (0..250).map(|_| random_value(&mut rng)).collect()
        };
        let path = format!("{dir}/v.agdb");
        let fired = std::cell::RefCell::new(std::collections::BTreeSet::new());
        let viol = |rep: &mut Report, class: String, detail: String, v: &DbValue| {
            if fired.borrow_mut().insert(class.clone()) {
                rep.violation(
                    &format!("C12:{class}"),
                    &detail,
                    json!({"engine":"c12","case":case,"seed":args.u64("seed",1),"tier":args.str("tier","quick"),"backend":kind,"value": format!("{v:?}").chars().take(400).collect::<String>()}),
                );
            }
        };
        let tname = |v: &DbValue| match v {
            DbValue::Bytes(_) => "bytes",
            DbValue::I64(_) => "i64",
            DbValue::U64(_) => "u64",
            DbValue::F64(_) => "f64",
            DbValue::String(_) => "string",
            DbValue::VecI64(_) => "vec_i64",
            DbValue::VecU64(_) => "vec_u64",
            DbValue::VecF64(_) => "vec_f64",
            DbValue::VecString(_) => "vec_string",
        };
        let r = panicmon::catch(|| -> Result<(), String> {
            let mut any = open(kind, &path).map_err(|e| format!("{e:?}"))?;
            // element i carries (fixed key -> value i) and (value i as key -> marker)
            let mut ids = vec![];
            for chunk in values.chunks(50) {
                let multi: Vec<Vec<(DbValue, DbValue)>> = chunk
                    .iter()
                    .map(|v| {
                        // keys within one list must be distinct: the value slot key never equals a tested value
                        vec![(DbValue::from("__value_slot__"), v.clone()), (v.clone(), DbValue::from(1_i64))]
                    })
                    .collect();
                let q = MutQ::InsertNodes {
                    count: 0,
                    aliases: vec![],
                    values: Vals::Multi(multi),
                };
                let r = with_db!(&mut any, db, q.to_agdb().exec(db)).map_err(|e| format!("insert failed: {e:?}"))?;
                ids.extend(r.elements.iter().map(|e| e.id.0));
            }
            let mut check_all = |any: &AnyDb, path_name: &str, rep: &mut Report| -> Result<(), String> {
                for (id, v) in ids.iter().zip(&values) {
                    let r = with_db!(any, db, db.exec(QueryBuilder::select().ids(*id).query())).map_err(|e| format!("select failed: {e:?}"))?;
                    let e = r.elements.first().ok_or("empty select")?;
                    rep.eval();
                    rep.distinct_hash(tag(&format!("{}|{}", tname(v), format!("{v:?}").len().min(64))));
                    // as value: the pair with key "v"; when v itself is the string "v" the later pair replaced it
                    let as_value = e.values.iter().find(|kv| kv.key == DbValue::from("__value_slot__"));
                    let expect_val = v.clone();
                    match as_value {
                        Some(kv) if bit_eq(&kv.value, &expect_val) => {}
                        other => viol(rep, format!("value_differs:{}:{path_name}", tname(v)), format!("[{kind}] stored {v:?}, read {:?}", other.map(|kv| &kv.value)), v),
                    }
                    // as key
                    if !e.values.iter().any(|kv| bit_eq(&kv.key, v)) {
                        viol(rep, format!("key_differs:{}:{path_name}", tname(v)), format!("[{kind}] key {v:?} not found among {:?}", e.values.iter().map(|kv| &kv.key).collect::<Vec<_>>()), v);
                    }
                    // select by key
                    let r2 = with_db!(any, db, db.exec(QueryBuilder::select().values(vec![v.clone()]).ids(*id).query()));
                    match r2 {
                        Ok(r2) => {
                            let ok = r2.elements.first().map(|e| e.values.len() == 1 && bit_eq(&e.values[0].key, v)).unwrap_or(false);
                            if !ok {
                                viol(rep, format!("select_by_key_differs:{}:{path_name}", tname(v)), format!("[{kind}] select by key {v:?} returned {:?}", r2.elements.first().map(|e| &e.values)), v);
                            }
                        }
                        Err(e) => {
                            // NaN keys are not equal to themselves under ==; only report non-NaN failures
                            let is_nan = matches!(v, DbValue::F64(f) if f.to_f64().is_nan())
                                || matches!(v, DbValue::VecF64(fs) if fs.iter().any(|f| f.to_f64().is_nan()));
                            if !is_nan {
                                viol(rep, format!("select_by_key_failed:{}:{path_name}", tname(v)), format!("[{kind}] select by key {v:?}: {}", e.description), v);
                            } else {
                                rep.count("nan_key_lookups_rejected");
                            }
                        }
                    }
                }
                Ok(())
            };
            check_all(&any, "live", rep)?;
            rep.count("read_paths_live");
            // twins: values that differ only in the sign of zero or in the NaN sign / payload are different values
            // (the documented comparison is total_cmp): overwriting one with the other must store the new bits, and
            // both can be keys of one element
            let floats: Vec<f64> = values.iter().filter_map(|v| if let DbValue::F64(f) = v { Some(f.to_f64()) } else { None }).collect();
            let mut groups: Vec<Vec<f64>> = vec![vec![0.0, -0.0], floats.iter().copied().filter(|f| f.is_nan()).take(6).collect()];
            if case >= 4 {
                // random cases: pairs that differ in one low bit
                groups = floats.iter().take(8).map(|f| vec![*f, f64::from_bits(f.to_bits() ^ 1)]).collect();
                groups.push(vec![0.0, -0.0]);
            }
            // (element id, key, expected value) triples to verify live and after reopen
            let mut expect: Vec<(i64, DbValue, DbValue)> = vec![];
            for grp in &groups {
                for a in grp {
                    for b in grp {
                        if a.to_bits() == b.to_bits() {
                            continue;
                        }
                        for wrap in 0..2 {
                            let (va, vb) = if wrap == 0 { (DbValue::from(*a), DbValue::from(*b)) } else { (DbValue::from(vec![1.5, *a]), DbValue::from(vec![1.5, *b])) };
                            // overwrite a with b
                            let q = MutQ::InsertNodes {
                                count: 0,
                                aliases: vec![],
                                values: Vals::Multi(vec![vec![(DbValue::from("__value_slot__"), va.clone())]]),
                            };
                            let id = with_db!(&mut any, db, q.to_agdb().exec(db)).map_err(|e| format!("insert failed: {e:?}"))?.elements[0].id.0;
                            with_db!(&mut any, db, db.exec_mut(QueryBuilder::insert().values([[(DbValue::from("__value_slot__"), vb.clone()).into()]]).ids(id).query()))
                                .map_err(|e| format!("overwrite failed: {e:?}"))?;
                            expect.push((id, DbValue::from("__value_slot__"), vb.clone()));
                            // a and b as two keys of one element
                            let q = MutQ::InsertNodes {
                                count: 0,
                                aliases: vec![],
                                values: Vals::Multi(vec![vec![(va.clone(), DbValue::from(1_i64)), (vb.clone(), DbValue::from(2_i64))]]),
                            };
                            let id = with_db!(&mut any, db, q.to_agdb().exec(db)).map_err(|e| format!("insert failed: {e:?}"))?.elements[0].id.0;
                            expect.push((id, va.clone(), DbValue::from(1_i64)));
                            expect.push((id, vb.clone(), DbValue::from(2_i64)));
                        }
                    }
                }
            }
            let check_twins = |any: &AnyDb, path_name: &str, rep: &mut Report, viol: &dyn Fn(&mut Report, String, String, &DbValue)| -> Result<(), String> {
                for (id, k, v) in &expect {
                    let r = with_db!(any, db, db.exec(QueryBuilder::select().ids(*id).query())).map_err(|e| format!("select failed: {e:?}"))?;
                    let e = r.elements.first().ok_or("empty select")?;
                    rep.eval();
                    rep.count("twin_value_checks");
                    match e.values.iter().find(|kv| bit_eq(&kv.key, k)) {
                        Some(kv) if bit_eq(&kv.value, v) => {}
                        other => viol(
                            rep,
                            format!("{}:{}:{path_name}", if *k == DbValue::from("__value_slot__") { "overwritten_value_differs" } else { "twin_key_differs" }, tname(v)),
                            format!("[{kind}] element {id}: expected key {k:?} -> {v:?}, found {:?} among {:?}", other.map(|kv| &kv.value), e.values),
                            v,
                        ),
                    }
                }
                Ok(())
            };
            check_twins(&any, "live", rep, &viol)?;
            // backup -> DbMemory::new
            let b = format!("{dir}/b.agdb");
            with_db!(&any, db, db.backup(&b)).map_err(|e| format!("backup failed: {e:?}"))?;
            {
                let m = open("memory", &b).map_err(|e| format!("open backup failed: {e:?}"))?;
                check_all(&m, "backup_as_memory", rep)?;
                rep.count("read_paths_backup");
            }
            if kind != "memory" {
                drop(any);
                for k2 in ["file", "mapped"] {
                    let any = open(k2, &path).map_err(|e| format!("reopen as {k2} failed: {e:?}"))?;
                    check_all(&any, &format!("reopened_as_{k2}"), rep)?;
                    check_twins(&any, &format!("reopened_as_{k2}"), rep, &viol)?;
                    rep.count("read_paths_reopen");
                }
            }
            Ok(())
        });
        match r {
            Ok(Ok(())) => {}
            Ok(Err(e)) => viol(rep, "operation_failed".into(), format!("[{kind}] {e}"), &DbValue::from(0_i64)),
            Err(p) => viol(rep, p.signature(), format!("[{kind}] panic {} at {}:{}", p.message, p.file, p.line), &DbValue::from(0_i64)),
        }
        if case == 0 {
            rep.sample(|| json!({"boundary_values": values.len(), "examples": values.iter().step_by(97).take(6).map(|v| format!("{v:?}")).collect::<Vec<_>>()}));
        }
        let _ = std::fs::remove_dir_all(&dir);
    }
    fn finish(&self, args: &Args, rep: &mut Report) {
        rep.require("read_paths_live", 8);
        rep.require("read_paths_backup", 8);
        rep.require("read_paths_reopen", 8);
        rep.require("twin_value_checks", 200);
        let _ = std::fs::remove_dir_all(args.str("scratch", "/verif/scratch/c12"));
    }
}
