//! Search engines: C14 (traversals), C15 (conditions), C16 (limit/offset/order),
//! C17 (path search), C18 (elements search).

use crate::hist_eng::exec_step;
use agdb::DbId;
use agdb::DbKeyOrder;
use agdb::DbMemory;
use agdb::QueryCondition;
use agdb::QueryConditionData;
use agdb::QueryConditionModifier;
use agdb::QueryId;
use agdb::SearchQuery;
use agdb::SearchQueryAlgorithm;
use serde_json::json;
use std::collections::BTreeSet;
use vcore::Args;
use vcore::genq::Gen;
use vcore::genq::GenCfg;
use vcore::model::Model;
use vcore::model::MutQ;
use vcore::model::QId;
use vcore::model::Vals;
use vcore::panicmon;
use vcore::report::Report;
use vcore::rng::Rng;
use vcore::rng::derive;
use vcore::rng::tag;
use vcore::search_ref;
use vcore::search_ref::READINGS;
use vcore::search_ref::Reading;
use vcore::workers::CaseEngine;

fn zero() -> QueryId {
    QueryId::Id(DbId(0))
}

pub fn sq(alg: SearchQueryAlgorithm, origin: i64, dest: i64) -> SearchQuery {
    SearchQuery {
        algorithm: alg,
        origin: QueryId::Id(DbId(origin)),
        destination: QueryId::Id(DbId(dest)),
        limit: 0,
        offset: 0,
        order_by: vec![],
        conditions: vec![],
    }
}

fn run_search(db: &DbMemory, q: &SearchQuery) -> Result<Result<Vec<i64>, String>, panicmon::PanicRecord> {
    panicmon::catch(|| match db.exec(q) {
        Ok(r) => Ok(r.elements.iter().map(|e| e.id.0).collect()),
        Err(e) => Err(e.description),
    })
}

/// builds a database + model with a generated history; None if another property's monitor fired
fn build(seed: u64, cfg: GenCfg, len: usize) -> Option<(DbMemory, Model, Gen)> {
    let mut db = DbMemory::new("search").ok()?;
    let mut model = Model::default();
    let mut g = Gen::new(seed, cfg);
    for _ in 0..len {
        let q = g.next(&model);
        let (_r, v) = exec_step(&mut db, &mut model, &q);
        if v.is_some() {
            return None;
        }
    }
    Some((db, model, g))
}

fn graph_cfg() -> GenCfg {
    let mut c = GenCfg::default();
    // nodes, nodes_ids, edges, edges_ids, aliases, values, index, rm_index, remove, rm_aliases, rm_values
    c.w = [10, 2, 30, 3, 3, 14, 0, 0, 9, 1, 3];
    c.hostile_pct = 3;
    c.bursts = false;
    c.max_nodes = 10;
    c
}

// ---------------------------------------------------------------------------
// C14
// ---------------------------------------------------------------------------

pub struct C14;

/// the statement of C14 as an oracle; returns (class, detail) on violation
fn c14_oracle(m: &Model, origin: i64, dfs: bool, reverse: bool, got: &[i64]) -> Option<(String, String)> {
    let alg = format!("{}{}", if dfs { "dfs" } else { "bfs" }, if reverse { "_reverse" } else { "" });
    let kind = if origin > 0 { "node_origin" } else { "edge_origin" };
    let reference = search_ref::traverse(m, origin, dfs, reverse, &[], Reading::default());
    let want_set: BTreeSet<i64> = reference.iter().map(|x| x.0).collect();
    let got_set: BTreeSet<i64> = got.iter().copied().collect();
    if got.first() != Some(&origin) {
        return Some((format!("origin_not_first:{alg}:{kind}"), format!("origin {origin}, result {got:?}")));
    }
    if got_set.len() != got.len() {
        return Some((format!("duplicate_element:{alg}:{kind}"), format!("result {got:?}")));
    }
    if got_set != want_set {
        let extra: Vec<i64> = got_set.difference(&want_set).copied().collect();
        let missing: Vec<i64> = want_set.difference(&got_set).copied().collect();
        let what = if !extra.is_empty() { "unreachable_element_returned" } else { "reachable_element_missing" };
        return Some((
            format!("{what}:{alg}:{kind}"),
            format!("origin {origin}: result {got:?}, reachable {:?} (extra {extra:?}, missing {missing:?})", want_set),
        ));
    }
    let dist = search_ref::distances(m, origin, reverse);
    if !dfs {
        let mut last = 0;
        for id in got {
            let d = dist.get(id).copied().unwrap_or(u64::MAX);
            if d < last {
                return Some((
                    format!("bfs_distance_decreases:{alg}:{kind}"),
                    format!("origin {origin}: result {got:?}: element {id} at distance {d} after distance {last}"),
                ));
            }
            last = d;
        }
    }
    // a node's edges newest first
    let pos = |id: i64| got.iter().position(|x| *x == id);
    for n in got.iter().filter(|i| **i > 0) {
        let edges = if reverse { m.inc.get(n) } else { m.out.get(n) };
        if let Some(edges) = edges {
            // the origin itself is first by definition and is exempt from its node's order
            let ps: Vec<usize> = edges.iter().filter(|e| **e != origin).filter_map(|e| pos(*e)).collect();
            if ps.windows(2).any(|w| w[0] > w[1]) {
                return Some((
                    format!("edge_order_not_newest_first:{alg}:{kind}"),
                    format!("origin {origin}: node {n} has edges newest-first {edges:?} but result is {got:?}"),
                ));
            }
        }
    }
    if dfs {
        let want: Vec<i64> = reference.iter().map(|x| x.0).collect();
        if got != want.as_slice() {
            return Some((
                format!("dfs_not_preorder:{alg}:{kind}"),
                format!("origin {origin}: result {got:?}, depth-first pre-order {want:?}"),
            ));
        }
    }
    None
}

fn c14_check_all(db: &DbMemory, m: &Model, rep: &mut Report, ctx: &dyn Fn() -> serde_json::Value) -> bool {
    let mut ok = true;
    let mut fired: BTreeSet<String> = BTreeSet::new();
    for origin in m.elems.keys().copied().collect::<Vec<_>>() {
        for (dfs, reverse) in [(false, false), (true, false), (false, true), (true, true)] {
            let alg = if dfs { SearchQueryAlgorithm::DepthFirst } else { SearchQueryAlgorithm::BreadthFirst };
            let q = if reverse { sq(alg, 0, origin) } else { sq(alg, origin, 0) };
            rep.eval();
            rep.count(if origin > 0 { "searches_from_node" } else { "searches_from_edge" });
            let r = run_search(db, &q);
            let v = match r {
                Ok(Ok(got)) => {
                    let full_bfs = search_ref::traverse(m, origin, dfs, reverse, &[], Reading::default());
                    if !dfs && got == full_bfs.iter().map(|x| x.0).collect::<Vec<_>>() {
                        rep.count("bfs_results_equal_to_reference_order");
                    }
                    c14_oracle(m, origin, dfs, reverse, &got)
                }
                Ok(Err(e)) => Some(("search_failed".to_string(), format!("origin {origin}: {e}"))),
                Err(p) => Some((p.signature(), format!("origin {origin}: panic {}", p.message))),
            };
            if let Some((class, detail)) = v {
                ok = false;
                if fired.insert(class.clone()) {
                    let mut w = ctx();
                    w["origin"] = json!(origin);
                    w["dfs"] = json!(dfs);
                    w["reverse"] = json!(reverse);
                    rep.violation(&format!("C14:{class}"), &detail, w);
                }
            }
        }
    }
    ok
}

/// the i-th small graph: `n` nodes then a sequence of (from,to) edges, all by insertion order
fn small_graph(mut idx: u64) -> Option<(usize, Vec<(usize, usize)>)> {
    for n in 1..=3usize {
        let choices = (n * n) as u64;
        for len in 0..=4u32 {
            let count = choices.pow(len);
            if idx < count {
                let mut edges = vec![];
                let mut x = idx;
                for _ in 0..len {
                    let c = (x % choices) as usize;
                    x /= choices;
                    edges.push((c / n, c % n));
                }
                return Some((n, edges));
            }
            idx -= count;
        }
    }
    None
}

pub fn small_graph_count() -> u64 {
    let mut t = 0;
    for n in 1..=3u64 {
        for len in 0..=4u32 {
            t += (n * n).pow(len);
        }
    }
    t
}

fn build_small(n: usize, edges: &[(usize, usize)]) -> Option<(DbMemory, Model)> {
    let mut db = DbMemory::new("small").ok()?;
    let mut m = Model::default();
    let q = MutQ::InsertNodes {
        count: n as u64,
        aliases: vec![],
        values: Vals::None,
    };
    let (_r, v) = exec_step(&mut db, &mut m, &q);
    if v.is_some() {
        return None;
    }
    let nodes = m.nodes();
    for (f, t) in edges {
        let q = MutQ::InsertEdges {
            from: vec![QId::Id(nodes[*f])],
            to: vec![QId::Id(nodes[*t])],
            each: false,
            values: Vals::None,
        };
        let (_r, v) = exec_step(&mut db, &mut m, &q);
        if v.is_some() {
            return None;
        }
    }
    Some((db, m))
}

const C14_CHUNKS: usize = 64;

impl CaseEngine for C14 {
    fn property(&self) -> &'static str {
        "C14"
    }
    fn rule(&self) -> String {
        format!(
            "exhaustive: every multigraph with <= 3 nodes and <= 4 edges by every insertion sequence ({} graphs), plus random graphs \
             (<= 10 nodes, removals and id reuse, self-loops, parallel edges) from generated histories; every node and every edge as \
             origin; BFS and DFS, forward and reverse; oracle = the statement: origin first, result set = reachable set, no duplicates, \
             BFS distances non-decreasing, each node's edges newest first, DFS = recursive pre-order. evaluations = searches; \
             distinct = distinct (graph shape hash) values",
            small_graph_count()
        )
    }
    fn cases(&self, args: &Args) -> usize {
        C14_CHUNKS + args.u64("random", if args.thorough() { 20_000 } else { 600 }) as usize
    }
    fn run_case(&self, args: &Args, case: usize, rep: &mut Report, _p: &dyn Fn(&str)) {
        if case < C14_CHUNKS {
            let total = small_graph_count();
            let mut i = case as u64;
            while i < total {
                if let Some((n, edges)) = small_graph(i) {
                    match build_small(n, &edges) {
                        Some((db, m)) => {
                            rep.count("exhaustive_small_graphs");
                            rep.distinct_hash(tag(&format!("{n}{edges:?}")));
                            let e2 = edges.clone();
                            c14_check_all(&db, &m, rep, &move || json!({"engine":"c14","case":case,"seed":1,"tier":"quick","small_graph_index": i, "nodes": n, "edges_in_insertion_order": e2}));
                            if i < 3 {
                                rep.sample(|| json!({"small_graph": i, "nodes": n, "edges": edges}));
                            }
                        }
                        None => rep.count("graphs_skipped_other_property"),
                    }
                }
                i += C14_CHUNKS as u64;
            }
            rep.exhaustive = true;
        } else {
            let seed = derive(args.u64("seed", 1), &[tag("C14"), case as u64]);
            let len = 20 + (seed % 60) as usize;
            match build(seed, graph_cfg(), len) {
                Some((db, m, _g)) => {
                    rep.count("random_graphs");
                    rep.max("max_elements_in_random_graph", m.elems.len() as i64);
                    rep.distinct_hash(tag(&format!("{:?}{:?}", m.out, m.inc)));
                    let s = args.u64("seed", 1);
                    let t = args.str("tier", "quick");
                    let m2 = m.clone();
                    c14_check_all(&db, &m, rep, &move || json!({"engine":"c14","case":case,"seed":s,"tier":t,"outgoing_newest_first": format!("{:?}", m2.out)}));
                }
                None => rep.count("graphs_skipped_other_property"),
            }
        }
    }
    fn finish(&self, _args: &Args, rep: &mut Report) {
        rep.require("exhaustive_small_graphs", small_graph_count() as i64 - 5);
        rep.require("random_graphs", 100);
        rep.require("searches_from_edge", 1000);
    }
}

// ---------------------------------------------------------------------------
// C15 / C18 conditions
// ---------------------------------------------------------------------------

pub struct C15;

fn cond_kind(c: &QueryCondition) -> String {
    let d = match &c.data {
        QueryConditionData::Distance(_) => "distance".to_string(),
        QueryConditionData::Edge => "edge".into(),
        QueryConditionData::Node => "node".into(),
        QueryConditionData::EdgeCount(_) => "edge_count".into(),
        QueryConditionData::EdgeCountFrom(_) => "edge_count_from".into(),
        QueryConditionData::EdgeCountTo(_) => "edge_count_to".into(),
        QueryConditionData::Ids(_) => "ids".into(),
        QueryConditionData::Keys(_) => "keys".into(),
        QueryConditionData::Where(_) => "where".into(),
        QueryConditionData::KeyValue(kvc) => {
            let (n, v) = match &kvc.value {
                agdb::Comparison::Equal(v) => ("eq", v),
                agdb::Comparison::NotEqual(v) => ("ne", v),
                agdb::Comparison::GreaterThan(v) => ("gt", v),
                agdb::Comparison::GreaterThanOrEqual(v) => ("ge", v),
                agdb::Comparison::LessThan(v) => ("lt", v),
                agdb::Comparison::LessThanOrEqual(v) => ("le", v),
                agdb::Comparison::Contains(v) => ("contains", v),
                agdb::Comparison::StartsWith(v) => ("starts_with", v),
                agdb::Comparison::EndsWith(v) => ("ends_with", v),
            };
            format!("key_value_{n}_t{}", search_ref::type_tag(v))
        }
    };
    format!("{:?}_{:?}_{d}", c.logic, c.modifier).to_lowercase()
}

fn matches_any_reading(m: &Model, q: &SearchQuery, got: &[i64]) -> bool {
    READINGS.iter().any(|rd| match search_ref::search(m, q, *rd) {
        Ok(want) => want == got,
        Err(_) => false,
    })
}

/// smallest sub-list of conditions that still disagrees (for a stable signature)
fn culprit(db: &DbMemory, m: &Model, q: &SearchQuery) -> String {
    fn flat(c: &[QueryCondition], out: &mut Vec<QueryCondition>) {
        for x in c {
            if let QueryConditionData::Where(i) = &x.data {
                flat(i, out);
            } else {
                out.push(x.clone());
            }
        }
    }
    let mut singles = vec![];
    flat(&q.conditions, &mut singles);
    for c in &singles {
        let mut q2 = q.clone();
        q2.conditions = vec![c.clone()];
        if let Ok(Ok(got)) = run_search(db, &q2) {
            if !matches_any_reading(m, &q2, &got) {
                return format!("single:{}", cond_kind(c));
            }
        }
    }
    let mut kinds: Vec<String> = singles.iter().map(cond_kind).collect();
    kinds.sort();
    kinds.dedup();
    format!("combination:{}", kinds.join("+"))
}

fn value_cfg() -> GenCfg {
    let mut c = GenCfg::default();
    c.w = [10, 3, 22, 6, 3, 30, 0, 0, 6, 1, 4];
    c.hostile_pct = 2;
    c.bursts = false;
    c.max_nodes = 9;
    c
}

impl CaseEngine for C15 {
    fn property(&self) -> &'static str {
        "C15"
    }
    fn rule(&self) -> String {
        "random (property-bearing graph, condition tree of depth <= 2 with all condition kinds, modifiers, and/or, algorithm BFS/DFS \
         forward/reverse or elements, origin) triples; the result must equal the reference evaluator's result (documented truth tables, \
         type-strict comparisons, documented vector forms) under at least one of the 4 admissible readings of the two corners the \
         documentation leaves open (beyond/not_beyond combined with or: table vs prose; beyond at the origin). evaluations = searches; \
         distinct = distinct (algorithm, set of condition kinds incl. modifier, logic, comparison kind, operand type) tuples"
            .into()
    }
    fn cases(&self, args: &Args) -> usize {
        args.u64("n", if args.thorough() { 12_000 } else { 500 }) as usize
    }
    fn run_case(&self, args: &Args, case: usize, rep: &mut Report, _p: &dyn Fn(&str)) {
        let seed = derive(args.u64("seed", 1), &[tag("C15"), case as u64]);
        let Some((db, m, mut g)) = build(seed, value_cfg(), 30 + (seed % 40) as usize) else {
            rep.count("graphs_skipped_other_property");
            return;
        };
        let elems: Vec<i64> = m.elems.keys().copied().collect();
        if elems.is_empty() {
            return;
        }
        let mut fired = BTreeSet::new();
        for k in 0..40 {
            let origin = elems[g.rng.usize(elems.len())];
            let (alg, reverse, elements) = match g.rng.below(5) {
                0 => (SearchQueryAlgorithm::BreadthFirst, false, false),
                1 => (SearchQueryAlgorithm::DepthFirst, false, false),
                2 => (SearchQueryAlgorithm::BreadthFirst, true, false),
                3 => (SearchQueryAlgorithm::DepthFirst, true, false),
                _ => (SearchQueryAlgorithm::Elements, false, true),
            };
            let mut q = if elements {
                sq(alg, 0, 0)
            } else if reverse {
                sq(alg, 0, origin)
            } else {
                sq(alg, origin, 0)
            };
            q.conditions = g.conditions(&m, 2, !elements, !elements);
            rep.eval();
            let mut kinds: Vec<String> = vec![];
            fn collect(c: &[QueryCondition], out: &mut Vec<String>) {
                for x in c {
                    out.push(cond_kind(x));
                    if let QueryConditionData::Where(i) = &x.data {
                        collect(i, out);
                    }
                }
            }
            collect(&q.conditions, &mut kinds);
            kinds.sort();
            kinds.dedup();
            for kd in &kinds {
                rep.distinct_hash(tag(&format!("{alg:?}{reverse}{kd}")));
            }
            if search_ref::uses_control(&q.conditions) {
                rep.count("searches_with_traversal_control");
            }
            let r = run_search(&db, &q);
            let v: Option<(String, String)> = match r {
                Ok(Ok(got)) => {
                    let refs: Vec<Vec<i64>> = READINGS
                        .iter()
                        .filter_map(|rd| search_ref::search(&m, &q, *rd).ok())
                        .collect();
                    if refs.iter().any(|w| *w == got) {
                        if refs.iter().any(|w| *w != refs[0]) {
                            rep.count("searches_where_readings_differ");
                        }
                        if !got.is_empty() {
                            rep.count("non_empty_results");
                        }
                        None
                    } else {
                        let c = culprit(&db, &m, &q);
                        Some((
                            format!("selection_mismatch:{c}"),
                            format!("{q:?}\n result {got:?}\n reference {:?}", refs.first()),
                        ))
                    }
                }
                Ok(Err(e)) => Some(("search_failed".into(), format!("{q:?}: {e}"))),
                Err(p) => Some((p.signature(), format!("{q:?}: panic {}", p.message))),
            };
            if let Some((class, detail)) = v {
                if fired.insert(class.clone()) {
                    rep.violation(
                        &format!("C15:{class}"),
                        &detail,
                        json!({"engine":"c15","case":case,"seed":args.u64("seed",1),"tier":args.str("tier","quick"),"search_number":k,
                               "elements": format!("{:?}", m.elems)}),
                    );
                }
            }
            if case == 0 && k < 2 {
                rep.sample(|| json!({"query": format!("{q:?}")}));
            }
        }
    }
    fn finish(&self, _args: &Args, rep: &mut Report) {
        rep.require("searches_with_traversal_control", 200);
        rep.require("non_empty_results", 500);
    }
}

// ---------------------------------------------------------------------------
// C16
// ---------------------------------------------------------------------------

pub struct C16;

fn is_sorted_by(m: &Model, f: &[i64], r: &[i64], order: &[DbKeyOrder]) -> Result<(), String> {
    // the documented order, computed independently, stable w.r.t. r
    let mut want = r.to_vec();
    match search_ref::order_by(m, &mut want, order) {
        Some(()) => {
            if want != f {
                return Err(format!("ordered result {f:?} is not the stable sort {want:?} of {r:?}"));
            }
            Ok(())
        }
        None => Ok(()), // mixed types under one key: order unspecified
    }
}

impl CaseEngine for C16 {
    fn property(&self) -> &'static str {
        "C16"
    }
    fn rule(&self) -> String {
        "random searches (BFS/DFS forward and reverse, path, elements) over generated property-bearing graphs with limit and offset in \
         0..n+3 and 0-3 order-by keys; relative oracle: R = the implementation's own result without limit/offset/order; without ordering \
         the result must be R[O..O+L] clipped; with ordering the unsliced ordered result F must be a permutation of R that is the stable \
         sort by the keys (missing keys last; judged with an independent per-type comparator, skipped when one key holds mixed types), \
         and the sliced result must be F[O..O+L] clipped; never an error or panic. evaluations = searches; distinct = distinct \
         (algorithm, limit class, offset class, number of order keys) tuples"
            .into()
    }
    fn cases(&self, args: &Args) -> usize {
        args.u64("n", if args.thorough() { 8000 } else { 400 }) as usize
    }
    fn run_case(&self, args: &Args, case: usize, rep: &mut Report, _p: &dyn Fn(&str)) {
        let seed = derive(args.u64("seed", 1), &[tag("C16"), case as u64]);
        let Some((db, m, mut g)) = build(seed, value_cfg(), 30 + (seed % 40) as usize) else {
            rep.count("graphs_skipped_other_property");
            return;
        };
        let nodes = m.nodes();
        let elems: Vec<i64> = m.elems.keys().copied().collect();
        if nodes.is_empty() {
            return;
        }
        let mut fired = BTreeSet::new();
        for k in 0..40 {
            let origin = elems[g.rng.usize(elems.len())];
            let (mut q, algname) = match g.rng.below(6) {
                0 => (sq(SearchQueryAlgorithm::BreadthFirst, origin, 0), "bfs"),
                1 => (sq(SearchQueryAlgorithm::DepthFirst, origin, 0), "dfs"),
                2 => (sq(SearchQueryAlgorithm::BreadthFirst, 0, origin), "bfs_reverse"),
                3 => (sq(SearchQueryAlgorithm::DepthFirst, 0, origin), "dfs_reverse"),
                4 => (sq(SearchQueryAlgorithm::Elements, 0, 0), "elements"),
                _ => {
                    let a = nodes[g.rng.usize(nodes.len())];
                    let b = nodes[g.rng.usize(nodes.len())];
                    (sq(SearchQueryAlgorithm::BreadthFirst, a, b), "path")
                }
            };
            if g.rng.chance(1, 2) {
                // traversal control (beyond / not_beyond / distance) included: the oracle is relative to the
                // implementation's own unsliced result, and an element that is selected but stops the
                // traversal must do so inside a skipped offset prefix as well
                let traversal = algname != "elements" && algname != "path";
                q.conditions = g.conditions(&m, 1, true, traversal);
                if q.conditions.iter().any(|c| matches!(c.modifier, QueryConditionModifier::Beyond | QueryConditionModifier::NotBeyond) || matches!(c.data, QueryConditionData::Distance(_))) {
                    rep.count("searches_with_traversal_control_conditions");
                }
            }
            let base = q.clone();
            let r = match run_search(&db, &base) {
                Ok(Ok(r)) => r,
                _ => continue, // the unsliced search itself is other properties' business
            };
            let n = r.len() as u64;
            q.limit = g.rng.below(n + 4);
            q.offset = g.rng.below(n + 4);
            if g.rng.chance(1, 5) {
                q.limit = 0;
            }
            if g.rng.chance(1, 5) {
                q.offset = 0;
            }
            q.order_by = if g.rng.chance(1, 2) { g.order() } else { vec![] };
            rep.eval();
            rep.distinct_hash(tag(&format!(
                "{algname}|{}|{}|{}",
                if q.limit == 0 { 0 } else if q.limit > n { 2 } else { 1 },
                if q.offset == 0 { 0 } else if q.offset >= n { 2 } else { 1 },
                q.order_by.len()
            )));
            if q.offset > n || (q.limit > 0 && q.offset + q.limit > n) {
                rep.count("searches_slicing_beyond_the_end");
            }
            if !q.order_by.is_empty() {
                rep.count("searches_with_ordering");
            }
            let v: Option<(String, String)> = (|| {
                let got = match run_search(&db, &q) {
                    Ok(Ok(g)) => g,
                    Ok(Err(e)) => return Some((format!("search_failed:{algname}"), format!("{q:?}: {e}"))),
                    Err(p) => return Some((format!("{}:{algname}", p.signature()), format!("{q:?}: panic {}", p.message))),
                };
                let f = if q.order_by.is_empty() {
                    r.clone()
                } else {
                    let mut qf = q.clone();
                    qf.limit = 0;
                    qf.offset = 0;
                    let f = match run_search(&db, &qf) {
                        Ok(Ok(f)) => f,
                        Ok(Err(e)) => return Some((format!("search_failed:{algname}"), format!("{qf:?}: {e}"))),
                        Err(p) => return Some((format!("{}:{algname}", p.signature()), format!("{qf:?}: panic {}", p.message))),
                    };
                    let mut a = f.clone();
                    let mut b = r.clone();
                    a.sort();
                    b.sort();
                    if a != b {
                        return Some((
                            format!("ordering_changes_the_set:{algname}"),
                            format!("{qf:?}: ordered {f:?} vs unordered {r:?}"),
                        ));
                    }
                    if let Err(e) = is_sorted_by(&m, &f, &r, &q.order_by) {
                        return Some((format!("not_a_stable_sort:{algname}"), format!("{qf:?}: {e}")));
                    }
                    f
                };
                let want = search_ref::slice(f.clone(), q.limit, q.offset);
                if got != want {
                    return Some((
                        format!(
                            "wrong_slice:{algname}:{}",
                            if q.order_by.is_empty() { "unordered" } else { "ordered" }
                        ),
                        format!("limit {} offset {}: got {got:?}, expected {want:?} of {f:?}", q.limit, q.offset),
                    ));
                }
                None
            })();
            if let Some((class, detail)) = v {
                if fired.insert(class.clone()) {
                    rep.violation(
                        &format!("C16:{class}"),
                        &detail,
                        json!({"engine":"c16","case":case,"seed":args.u64("seed",1),"tier":args.str("tier","quick"),"search_number":k}),
                    );
                }
            }
            if case == 0 && k < 2 {
                rep.sample(|| json!({"query": format!("{q:?}"), "unsliced_result_len": n}));
            }
        }
    }
    fn finish(&self, _args: &Args, rep: &mut Report) {
        rep.require("searches_slicing_beyond_the_end", 200);
        rep.require("searches_with_ordering", 200);
    }
}

// ---------------------------------------------------------------------------
// C17
// ---------------------------------------------------------------------------

pub struct C17;

fn c17_oracle(m: &Model, from: i64, to: i64, conds: &[QueryCondition], got: &[i64]) -> Option<(String, String)> {
    // any admissible reading may justify the result
    let mut first: Option<(String, String)> = None;
    for rd in READINGS {
        let v = c17_oracle_rd(m, from, to, conds, got, rd);
        match v {
            None => return None,
            Some(x) => {
                if first.is_none() {
                    first = Some(x);
                }
            }
        }
    }
    first
}

fn c17_oracle_rd(
    m: &Model,
    from: i64,
    to: i64,
    conds: &[QueryCondition],
    got: &[i64],
    rd: Reading,
) -> Option<(String, String)> {
    let best = search_ref::min_path_cost(m, from, to, conds, rd);
    match best {
        None => {
            if got.is_empty() {
                None
            } else {
                Some(("path_returned_but_none_usable".into(), format!("{from}->{to}: result {got:?}")))
            }
        }
        Some(cost) => {
            let origin_selected = search_ref::eval(m, from, 0, conds, rd).val();
            // a usable path exists: the result lists its passing elements; it may be empty only if
            // no element of a minimal path passes
            for id in got {
                if *id != from {
                    match search_ref::element_cost(m, *id, conds, rd) {
                        Some((_, true)) => {}
                        _ => {
                            return Some((
                                "returned_element_fails_conditions".into(),
                                format!("{from}->{to}: element {id} of {got:?} does not pass"),
                            ));
                        }
                    }
                }
            }
            if search_ref::path_witness(m, from, to, conds, rd, got, cost, origin_selected) {
                None
            } else {
                Some((
                    "not_a_minimum_cost_path".into(),
                    format!("{from}->{to}: result {got:?} is not the passing projection of any path of minimal cost {cost}"),
                ))
            }
        }
    }
}

/// distance-independent condition sets whose evaluation at the origin does not stop the search
fn path_conditions(g: &mut Gen, m: &Model, origin: i64) -> Vec<QueryCondition> {
    for _ in 0..20 {
        let c = g.conditions(m, 1, true, false);
        let stops = READINGS
            .iter()
            .any(|rd| matches!(search_ref::eval(m, origin, 0, &c, *rd), search_ref::Ctl::Stop(_)));
        if !stops {
            return c;
        }
    }
    vec![]
}

impl CaseEngine for C17 {
    fn property(&self) -> &'static str {
        "C17"
    }
    fn rule(&self) -> String {
        format!(
            "exhaustive: all {} small multigraphs (<= 3 nodes, <= 4 edges) x all (origin, destination) node pairs without conditions; \
             random generated graphs with random distance-independent condition sets (node/edge/ids/keys/key-value/edge-count, not, \
             and/or, beyond, not_beyond; conditions stopping at the origin are not generated) and endpoints that are nodes, edges or \
             equal; oracle = reference Dijkstra over element costs (1 pass / 2 fail / unusable) + product-graph witness that the returned \
             sequence is the passing projection of a minimum-cost path; empty exactly when no usable path / endpoint not a node / equal \
             endpoints. evaluations = path searches; distinct = distinct (min cost, result length, condition kinds) tuples",
            small_graph_count()
        )
    }
    fn cases(&self, args: &Args) -> usize {
        C14_CHUNKS + args.u64("random", if args.thorough() { 12_000 } else { 500 }) as usize
    }
    fn run_case(&self, args: &Args, case: usize, rep: &mut Report, _p: &dyn Fn(&str)) {
        let mut fired = BTreeSet::new();
        let mut check = |db: &DbMemory, m: &Model, from: i64, to: i64, conds: Vec<QueryCondition>, rep: &mut Report, ctx: serde_json::Value| {
            let mut q = sq(SearchQueryAlgorithm::BreadthFirst, from, to);
            q.conditions = conds.clone();
            rep.eval();
            let v = match run_search(db, &q) {
                Ok(Ok(got)) => {
                    let best = search_ref::min_path_cost(m, from, to, &conds, Reading::default());
                    rep.distinct_hash(tag(&format!("{best:?}|{}|{}", got.len(), conds.len())));
                    if best.is_some() {
                        rep.count("searches_with_a_usable_path");
                    } else {
                        rep.count("searches_without_usable_path");
                    }
                    if let Some(b) = best {
                        if !conds.is_empty() && b > got.len() as u64 {
                            rep.count("paths_through_failing_elements");
                        }
                        // fewest elements of any route (= min cost without conditions) vs elements of the cheapest route
                        if let (Some(hops), Some((_, len))) = (
                            search_ref::min_path_cost(m, from, to, &[], Reading::default()),
                            search_ref::min_path_cost_len(m, from, to, &conds, Reading::default()),
                        ) {
                            if len > hops {
                                rep.count("cheapest_path_is_not_the_shortest");
                            }
                        }
                    }
                    c17_oracle(m, from, to, &conds, &got)
                }
                Ok(Err(e)) => Some(("search_failed".into(), format!("{q:?}: {e}"))),
                Err(p) => Some((p.signature(), format!("{q:?}: panic {}", p.message))),
            };
            if let Some((class, detail)) = v {
                if fired.insert(class.clone()) {
                    rep.violation(&format!("C17:{class}"), &format!("{detail}; conditions {conds:?}"), ctx);
                }
            }
        };
        if case < C14_CHUNKS {
            let total = small_graph_count();
            let mut i = case as u64;
            while i < total {
                if let Some((n, edges)) = small_graph(i) {
                    if let Some((db, m)) = build_small(n, &edges) {
                        rep.count("exhaustive_small_graphs");
                        let nodes = m.nodes();
                        for a in &nodes {
                            for b in &nodes {
                                check(&db, &m, *a, *b, vec![], rep, json!({"engine":"c17","case":case,"seed":1,"tier":"quick","small_graph_index":i,"nodes":n,"edges":edges}));
                            }
                        }
                    }
                }
                i += C14_CHUNKS as u64;
            }
            rep.exhaustive = true;
        } else {
            let seed = derive(args.u64("seed", 1), &[tag("C17"), case as u64]);
            if case % 2 == 0 {
                // structured: competing routes of different length whose elements pass / fail by construction,
                // so the cheapest route is frequently *not* the one with the fewest elements
                let mut rng = Rng::new(seed);
                let mut db = DbMemory::new("routes").unwrap();
                let mut m = Model::default();
                let n = 5 + rng.usize(5);
                let ok = |v: Option<crate::hist_eng::Viol>| v.is_none();
                let (_r, v) = exec_step(&mut db, &mut m, &MutQ::InsertNodes { count: n as u64, aliases: vec![], values: Vals::None });
                if !ok(v) {
                    return;
                }
                let nodes = m.nodes();
                let (a, b) = (nodes[0], nodes[n - 1]);
                // several routes a -> ... -> b with 1..4 hops; one long route is marked completely, the rest sparsely
                let routes = 2 + rng.usize(3);
                let favoured = rng.usize(routes);
                let mut marked: Vec<QId> = vec![];
                for r in 0..routes {
                    let hops = if r == favoured { 2 + rng.usize(3) } else { 1 + rng.usize(3) };
                    let mut cur = a;
                    for h in 0..hops {
                        let next = if h + 1 == hops { b } else { nodes[1 + rng.usize(n - 2)] };
                        let before: BTreeSet<i64> = m.elems.keys().copied().collect();
                        let (_r, v) = exec_step(&mut db, &mut m, &MutQ::InsertEdges { from: vec![QId::Id(cur)], to: vec![QId::Id(next)], each: false, values: Vals::None });
                        if !ok(v) {
                            return;
                        }
                        let new_edge: Vec<i64> = m.elems.keys().copied().filter(|i| !before.contains(i)).collect();
                        if r == favoured || rng.chance(1, 4) {
                            marked.extend(new_edge.into_iter().map(QId::Id));
                            marked.push(QId::Id(next));
                        }
                        cur = next;
                    }
                }
                marked.sort_by_key(|q| match q { QId::Id(i) => *i, _ => 0 });
                marked.dedup();
                if !marked.is_empty() {
                    let (_r, v) = exec_step(&mut db, &mut m, &MutQ::InsertValues { ids: vcore::model::Ids::List(marked.clone()), values: Vals::Single(vec![(agdb::DbValue::from("mark"), agdb::DbValue::from(1_i64))]) });
                    if !ok(v) {
                        return;
                    }
                }
                rep.count("structured_route_graphs");
                let cond = |modifier| QueryCondition {
                    logic: agdb::QueryConditionLogic::And,
                    modifier,
                    data: QueryConditionData::Keys(vec![agdb::DbValue::from("mark")]),
                };
                for (k, conds) in [
                    vec![cond(agdb::QueryConditionModifier::None)],
                    vec![cond(agdb::QueryConditionModifier::Not)],
                    vec![],
                ]
                .into_iter()
                .enumerate()
                {
                    check(&db, &m, a, b, conds, rep, json!({"engine":"c17","case":case,"seed":args.u64("seed",1),"tier":args.str("tier","quick"),"structured":true,"variant":k,
                        "outgoing": format!("{:?}", m.out), "marked": format!("{marked:?}")}));
                }
                return;
            }
            let Some((db, m, mut g)) = build(seed, {
                let mut c = value_cfg();
                c.w[2] = 34;
                c
            }, 30 + (seed % 50) as usize) else {
                rep.count("graphs_skipped_other_property");
                return;
            };
            let nodes = m.nodes();
            let elems: Vec<i64> = m.elems.keys().copied().collect();
            if nodes.len() < 2 {
                return;
            }
            rep.count("random_graphs");
            for k in 0..30 {
                let a = nodes[g.rng.usize(nodes.len())];
                let b = match g.rng.below(10) {
                    0 => a,
                    1 => elems[g.rng.usize(elems.len())],
                    _ => nodes[g.rng.usize(nodes.len())],
                };
                let conds = if g.rng.chance(2, 3) { path_conditions(&mut g, &m, a) } else { vec![] };
                if a == b {
                    rep.count("searches_with_equal_endpoints");
                }
                if b < 0 {
                    rep.count("searches_with_edge_endpoint");
                }
                check(&db, &m, a, b, conds, rep, json!({"engine":"c17","case":case,"seed":args.u64("seed",1),"tier":args.str("tier","quick"),"search_number":k,"from":a,"to":b,
                    "outgoing": format!("{:?}", m.out)}));
            }
        }
        if case == 0 {
            rep.sample(|| json!({"note": "case 0 = exhaustive chunk 0 of small graphs, all node pairs"}));
        }
    }
    fn finish(&self, _args: &Args, rep: &mut Report) {
        rep.require("exhaustive_small_graphs", small_graph_count() as i64 - 5);
        rep.require("searches_with_a_usable_path", 1000);
        rep.require("searches_without_usable_path", 200);
        rep.require("paths_through_failing_elements", 20);
        rep.require("structured_route_graphs", 50);
        rep.require("cheapest_path_is_not_the_shortest", 10);
    }
}

// ---------------------------------------------------------------------------
// C18: elements search
// ---------------------------------------------------------------------------

pub struct C18S;

impl CaseEngine for C18S {
    fn property(&self) -> &'static str {
        "C18"
    }
    fn rule(&self) -> String {
        "generated histories with removals and id reuse, then elements searches without conditions, with condition trees that do not \
         refer to distance or traversal control, and with limit/offset; result must equal the model's elements sorted by id magnitude, \
         filtered by the reference condition evaluator and sliced. evaluations = elements searches; distinct = distinct (has conditions, \
         limit class, offset class, removed-slot pattern) tuples"
            .into()
    }
    fn cases(&self, args: &Args) -> usize {
        args.u64("n", if args.thorough() { 8000 } else { 400 }) as usize
    }
    fn run_case(&self, args: &Args, case: usize, rep: &mut Report, _p: &dyn Fn(&str)) {
        let seed = derive(args.u64("seed", 1), &[tag("C18S"), case as u64]);
        let mut cfg = crate::hist_eng::weights_for("C18");
        cfg.bursts = case % 7 == 0;
        cfg.hostile_pct = 3;
        let Some((db, m, mut g)) = build(seed, cfg, 25 + (seed % 60) as usize) else {
            rep.count("histories_skipped_other_property");
            return;
        };
        let holes = {
            let ids = m.by_magnitude();
            let max = ids.last().map(|i| i.unsigned_abs()).unwrap_or(0);
            max as usize - ids.len().min(max as usize)
        };
        if holes > 0 {
            rep.count("databases_with_removed_slots");
        }
        let mut fired = BTreeSet::new();
        let mut rng = Rng::new(seed ^ 0x55);
        for k in 0..25 {
            let mut q = sq(SearchQueryAlgorithm::Elements, 0, 0);
            let with_conds = k > 0 && rng.chance(1, 2);
            if with_conds {
                // beyond / not_beyond are allowed: they "only control traversal", so in a linear scan they
                // must not change the selection; distance is not generated (no documented meaning here)
                q.conditions = g.conditions(&m, 2, true, false);
                if search_ref::uses_control(&q.conditions) {
                    rep.count("elements_searches_with_traversal_modifiers");
                }
            }
            let n = m.elems.len() as u64;
            if k > 1 && rng.chance(1, 2) {
                q.limit = rng.below(n + 3);
            }
            if k > 1 && rng.chance(1, 2) {
                q.offset = rng.below(n + 3);
            }
            rep.eval();
            rep.distinct_hash(tag(&format!("{with_conds}|{}|{}|{}", q.limit.min(3), q.offset.min(3), holes.min(4))));
            let v = match run_search(&db, &q) {
                Ok(Ok(got)) => match search_ref::search(&m, &q, Reading::default()) {
                    Ok(want) => {
                        if got == want || matches_any_reading(&m, &q, &got) {
                            None
                        } else {
                            let mut a = got.clone();
                            a.sort_by_key(|i| i.unsigned_abs());
                            let class = if got.iter().any(|i| !m.exists(*i)) {
                                "removed_element_returned"
                            } else if a != got {
                                "not_in_id_magnitude_order"
                            } else if !with_conds && q.limit == 0 && q.offset == 0 {
                                "element_missing_or_repeated"
                            } else if with_conds {
                                "wrong_selection"
                            } else {
                                "wrong_slice"
                            };
                            Some((class.to_string(), format!("{q:?}: got {got:?} expected {want:?}")))
                        }
                    }
                    Err(_) => None,
                },
                Ok(Err(e)) => Some(("search_failed".into(), format!("{q:?}: {e}"))),
                Err(p) => Some((p.signature(), format!("{q:?}: panic {}", p.message))),
            };
            if let Some((class, detail)) = v {
                if fired.insert(class.clone()) {
                    rep.violation(
                        &format!("C18:{class}"),
                        &detail,
                        json!({"engine":"c18s","case":case,"seed":args.u64("seed",1),"tier":args.str("tier","quick"),"search_number":k}),
                    );
                }
            }
            if case == 0 && k < 2 {
                rep.sample(|| json!({"query": format!("{q:?}"), "elements": m.by_magnitude()}));
            }
        }
    }
    fn finish(&self, _args: &Args, rep: &mut Report) {
        rep.require("databases_with_removed_slots", 50);
        rep.require("elements_searches_with_traversal_modifiers", 50);
    }
}
