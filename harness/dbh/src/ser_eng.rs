//! C20 (binary serialization round-trips and reports its exact size) and
//! C21 (deserializing arbitrary bytes never crashes).

use agdb::AgdbSerialize;
use agdb::Comparison;
use agdb::CountComparison;
use agdb::DbF64;
use agdb::DbId;
use agdb::DbKeyOrder;
use agdb::DbKeyValue;
use agdb::DbSerialize;
use agdb::DbValue;
use agdb::InsertAliasesQuery;
use agdb::InsertEdgesQuery;
use agdb::InsertIndexQuery;
use agdb::InsertNodesQuery;
use agdb::InsertValuesQuery;
use agdb::KeyValueComparison;
use agdb::QueryCondition;
use agdb::QueryId;
use agdb::QueryIds;
use agdb::QueryType;
use agdb::QueryValues;
use agdb::RemoveAliasesQuery;
use agdb::RemoveIndexQuery;
use agdb::RemoveQuery;
use agdb::RemoveValuesQuery;
use agdb::SearchQuery;
use agdb::SelectAliasesQuery;
use agdb::SelectAllAliasesQuery;
use agdb::SelectEdgeCountQuery;
use agdb::SelectIndexesQuery;
use agdb::SelectKeyCountQuery;
use agdb::SelectKeysQuery;
use agdb::SelectNodeCountQuery;
use agdb::SelectValuesQuery;
use serde_json::json;
use std::net::IpAddr;
use std::net::Ipv4Addr;
use std::net::Ipv6Addr;
use std::net::SocketAddr;
use std::net::SocketAddrV4;
use std::net::SocketAddrV6;
use std::path::PathBuf;
use std::time::Duration;
use std::time::SystemTime;
use std::time::UNIX_EPOCH;
use vcore::Args;
use vcore::genq::Gen;
use vcore::genq::GenCfg;
use vcore::model::Model;
use vcore::panicmon;
use vcore::report::Report;
use vcore::rng::Rng;
use vcore::rng::derive;
use vcore::rng::tag;
use vcore::workers::CaseEngine;

// ---- corpus of user types using the derive macro ----

#[derive(Debug, Clone, PartialEq, DbSerialize)]
pub struct UnitLike {}

#[derive(Debug, Clone, PartialEq, DbSerialize)]
pub struct Tuple2(pub i64, pub String);

// types whose serialized form is empty: vectors of them carry only the length
#[derive(Debug, Clone, PartialEq, DbSerialize)]
pub struct Marker;

#[derive(Debug, Clone, PartialEq, DbSerialize)]
pub struct WrapZ(pub UnitLike);

#[derive(Debug, Clone, PartialEq, DbSerialize)]
pub struct TrailZ {
    pub id: u64,
    pub marks: Vec<UnitLike>,
}

#[derive(Debug, Clone, PartialEq, DbSerialize)]
pub struct MidZ {
    pub marks: Vec<Marker>,
    pub name: String,
}

#[derive(Debug, Clone, PartialEq, DbSerialize)]
pub struct Named {
    pub id: u64,
    pub name: String,
    pub data: Vec<u8>,
    pub flags: Vec<bool>,
    pub ratio: f64,
}

#[derive(Debug, Clone, PartialEq, DbSerialize)]
pub enum Shape {
    Empty,
    Point(i64, i64),
    Named { label: String, weight: f64, tags: Vec<String> },
    Wide(u64, String, Vec<i64>, bool),
    Nested(Box2),
}

#[derive(Debug, Clone, PartialEq, DbSerialize)]
pub struct Box2 {
    pub inner: Tuple2,
    pub many: Vec<Tuple2>,
}

#[derive(Debug, Clone, PartialEq, DbSerialize)]
pub struct Generic<T: AgdbSerialize> {
    pub head: T,
    pub tail: Vec<T>,
}

#[derive(Debug, Clone, PartialEq, DbSerialize)]
pub struct Deep {
    pub shapes: Vec<Shape>,
    pub g: Generic<Named>,
    pub when: SystemTime,
    pub addr: SocketAddr,
    pub path: PathBuf,
    pub value: DbValue,
}

// ---- generators ----

pub struct G<'a> {
    pub rng: &'a mut Rng,
}

impl G<'_> {
    fn len(&mut self) -> usize {
        match self.rng.below(8) {
            0 => 0,
            1 => 1,
            2 => 15 + self.rng.usize(3),
            _ => self.rng.usize(12),
        }
    }
    fn string(&mut self) -> String {
        let n = self.len();
        let mut s = String::new();
        for _ in 0..n {
            let c = match self.rng.below(8) {
                0 => 'é',
                1 => '€',
                2 => '😀',
                3 => '\0',
                _ => (b'a' + self.rng.below(26) as u8) as char,
            };
            s.push(c);
        }
        s
    }
    fn f64(&mut self) -> f64 {
        // no NaN here (PartialEq); NaN bit patterns are covered by the dedicated f64 check
        match self.rng.below(6) {
            0 => 0.0,
            1 => -0.0,
            2 => f64::INFINITY,
            3 => f64::MIN_POSITIVE,
            _ => (self.rng.next_u64() as i64 as f64) / 1024.0,
        }
    }
    fn i64(&mut self) -> i64 {
        match self.rng.below(6) {
            0 => i64::MIN,
            1 => i64::MAX,
            2 => 0,
            3 => -1,
            _ => self.rng.next_u64() as i64,
        }
    }
    fn u64(&mut self) -> u64 {
        match self.rng.below(5) {
            0 => u64::MAX,
            1 => 0,
            _ => self.rng.next_u64(),
        }
    }
    fn bytes(&mut self) -> Vec<u8> {
        let n = self.len();
        self.rng.bytes(n)
    }
    fn dbvalue(&mut self) -> DbValue {
        match self.rng.below(9) {
            0 => DbValue::Bytes(self.bytes()),
            1 => DbValue::I64(self.i64()),
            2 => DbValue::U64(self.u64()),
            3 => DbValue::F64(DbF64::from(self.f64())),
            4 => DbValue::String(self.string()),
            5 => DbValue::VecI64((0..self.len()).map(|_| self.i64()).collect()),
            6 => DbValue::VecU64((0..self.len()).map(|_| self.u64()).collect()),
            7 => DbValue::VecF64((0..self.len()).map(|_| DbF64::from(self.f64())).collect()),
            _ => DbValue::VecString((0..self.len()).map(|_| self.string()).collect()),
        }
    }
    fn kv(&mut self) -> DbKeyValue {
        DbKeyValue {
            key: self.dbvalue(),
            value: self.dbvalue(),
        }
    }
    fn time(&mut self) -> SystemTime {
        let nanos = match self.rng.below(4) {
            0 => 0,
            1 => 999_999_999,
            2 => 1,
            _ => self.rng.below(1_000_000_000) as u32,
        };
        let secs = match self.rng.below(6) {
            0 => 0,
            1 => 1,
            2 => 86_400,
            3 => 4_102_444_800,
            4 => self.rng.below(1 << 40),
            _ => self.rng.below(1 << 33),
        };
        let d = Duration::new(secs, nanos);
        let t = if self.rng.chance(1, 2) {
            UNIX_EPOCH.checked_add(d)
        } else {
            UNIX_EPOCH.checked_sub(d)
        };
        t.unwrap_or(UNIX_EPOCH)
    }
    fn ip(&mut self) -> IpAddr {
        if self.rng.chance(1, 2) {
            let b = self.rng.bytes(4);
            IpAddr::V4(Ipv4Addr::new(b[0], b[1], b[2], b[3]))
        } else {
            self.ipv6().into()
        }
    }
    fn ipv6(&mut self) -> Ipv6Addr {
        match self.rng.below(6) {
            0 => Ipv6Addr::LOCALHOST,
            1 => Ipv6Addr::UNSPECIFIED,
            2 => Ipv4Addr::new(192, 168, 1, self.rng.below(256) as u8).to_ipv6_mapped(),
            3 => Ipv6Addr::new(0xfe80, 0, 0, 0, 0, 0, 0, 1),
            _ => {
                let mut s = [0u16; 8];
                for x in s.iter_mut() {
                    *x = if self.rng.chance(1, 3) { 0 } else { self.rng.below(65536) as u16 };
                }
                Ipv6Addr::from(s)
            }
        }
    }
    /// `exotic`: non-zero flowinfo / scope id
    fn sockaddr(&mut self, exotic: bool) -> SocketAddr {
        let port = self.rng.below(65536) as u16;
        if self.rng.chance(1, 2) {
            let b = self.rng.bytes(4);
            SocketAddr::V4(SocketAddrV4::new(Ipv4Addr::new(b[0], b[1], b[2], b[3]), port))
        } else {
            let (flow, scope) = if exotic {
                match self.rng.below(3) {
                    0 => (1 + self.rng.below(1 << 20) as u32, 0),
                    1 => (0, 1 + self.rng.below(15) as u32),
                    _ => (1 + self.rng.below(1 << 20) as u32, 1 + self.rng.below(15) as u32),
                }
            } else {
                (0, 0)
            };
            SocketAddr::V6(SocketAddrV6::new(self.ipv6(), port, flow, scope))
        }
    }
    fn path(&mut self) -> PathBuf {
        let parts: Vec<String> = (0..self.rng.usize(4)).map(|_| self.string().replace('\0', "_")).collect();
        PathBuf::from(parts.join("/"))
    }
    fn tuple2(&mut self) -> Tuple2 {
        Tuple2(self.i64(), self.string())
    }
    fn named(&mut self) -> Named {
        Named {
            id: self.u64(),
            name: self.string(),
            data: self.bytes(),
            flags: (0..self.len()).map(|_| self.rng.chance(1, 2)).collect(),
            ratio: self.f64(),
        }
    }
    fn shape(&mut self) -> Shape {
        match self.rng.below(5) {
            0 => Shape::Empty,
            1 => Shape::Point(self.i64(), self.i64()),
            2 => Shape::Named {
                label: self.string(),
                weight: self.f64(),
                tags: (0..self.len().min(4)).map(|_| self.string()).collect(),
            },
            3 => Shape::Wide(self.u64(), self.string(), (0..self.len()).map(|_| self.i64()).collect(), self.rng.chance(1, 2)),
            _ => Shape::Nested(Box2 {
                inner: self.tuple2(),
                many: (0..self.len().min(5)).map(|_| self.tuple2()).collect(),
            }),
        }
    }
    fn deep(&mut self) -> Deep {
        Deep {
            shapes: (0..self.len().min(4)).map(|_| self.shape()).collect(),
            g: Generic {
                head: self.named(),
                tail: (0..self.len().min(3)).map(|_| self.named()).collect(),
            },
            when: self.time(),
            addr: self.sockaddr(false),
            path: self.path(),
            value: self.dbvalue(),
        }
    }
}

fn queries(seed: u64) -> Vec<QueryType> {
    // query structs with realistic content from the history generator
    let mut g = Gen::new(seed, GenCfg::default());
    let mut m = Model::default();
    for i in 1..6 {
        m.add_node(i);
    }
    m.add_edge(-6, 1, 2);
    m.set_alias(1, "a");
    let mut out = vec![];
    for _ in 0..40 {
        let q = g.next(&m);
        out.push(match q.to_agdb() {
            vcore::model::AQ::InsertNodes(q) => QueryType::InsertNodes(q),
            vcore::model::AQ::InsertEdges(q) => QueryType::InsertEdges(q),
            vcore::model::AQ::InsertAliases(q) => QueryType::InsertAlias(q),
            vcore::model::AQ::InsertValues(q) => QueryType::InsertValues(q),
            vcore::model::AQ::InsertIndex(q) => QueryType::InsertIndex(q),
            vcore::model::AQ::RemoveIndex(q) => QueryType::RemoveIndex(q),
            vcore::model::AQ::Remove(q) => QueryType::Remove(q),
            vcore::model::AQ::RemoveAliases(q) => QueryType::RemoveAliases(q),
            vcore::model::AQ::RemoveValues(q) => QueryType::RemoveValues(q),
        });
    }
    for _ in 0..20 {
        let mut s = g.simple_search(&m);
        s.conditions = g.conditions(&m, 2, true, true);
        s.order_by = g.order();
        out.push(QueryType::Search(s.clone()));
        let ids = if g.rng.chance(1, 2) { QueryIds::Search(s) } else { QueryIds::Ids(vec![QueryId::Id(DbId(1)), QueryId::Alias("a".into())]) };
        out.push(match g.rng.below(7) {
            0 => QueryType::SelectAliases(SelectAliasesQuery(ids)),
            1 => QueryType::SelectAllAliases(SelectAllAliasesQuery {}),
            2 => QueryType::SelectEdgeCount(SelectEdgeCountQuery { ids, from: g.rng.chance(1, 2), to: g.rng.chance(1, 2) }),
            3 => QueryType::SelectIndexes(SelectIndexesQuery {}),
            4 => QueryType::SelectKeys(SelectKeysQuery(ids)),
            5 => QueryType::SelectKeyCount(SelectKeyCountQuery(ids)),
            _ => QueryType::SelectValues(SelectValuesQuery { keys: vec![g.key()], ids }),
        });
    }
    out.push(QueryType::SelectNodeCount(SelectNodeCountQuery {}));
    out
}

// ---- checks ----

fn nonce() {}

/// round trip + size for one value; `eq` compares the original and the decoded value
fn roundtrip<T: AgdbSerialize + std::fmt::Debug>(
    tname: &str,
    x: &T,
    eq: impl Fn(&T, &T) -> bool,
    rep: &mut Report,
    variant: &str,
) -> Option<(String, String)> {
    nonce();
    rep.eval();
    let r = panicmon::catch(|| {
        let bytes = x.serialize();
        let size = x.serialized_size();
        (bytes.clone(), size, T::deserialize(&bytes))
    });
    match r {
        Ok((bytes, size, decoded)) => {
            rep.distinct_hash(tag(&format!("{tname}|{variant}|{}", (bytes.len() as f64).log2() as i64)));
            if size != bytes.len() as u64 {
                return Some((format!("size_mismatch:{tname}:{variant}"), format!("serialized_size {} but {} bytes produced for {x:?}", size, bytes.len())));
            }
            match decoded {
                Ok(y) => {
                    if !eq(x, &y) {
                        return Some((format!("roundtrip_differs:{tname}:{variant}"), format!("{x:?} decoded as {y:?}")));
                    }
                    let again = y.serialize();
                    if again != bytes {
                        return Some((format!("reserialization_differs:{tname}:{variant}"), format!("{x:?}")));
                    }
                    None
                }
                Err(e) => Some((format!("roundtrip_error:{tname}:{variant}"), format!("{x:?}: {}", e.description))),
            }
        }
        Err(p) => Some((format!("{}:{tname}", p.signature()), format!("{x:?}: panic {}", p.message))),
    }
}

pub struct C20;

macro_rules! rt {
    ($fired:ident, $rep:ident, $ctx:expr, $name:expr, $val:expr, $variant:expr) => {{
        let v = $val;
        if let Some((class, detail)) = roundtrip($name, &v, |a, b| a == b, $rep, $variant) {
            if $fired.insert(class.clone()) {
                $rep.violation(&format!("C20:{class}"), &detail, $ctx.clone());
            }
        }
    }};
}

impl CaseEngine for C20 {
    fn property(&self) -> &'static str {
        "C20"
    }
    fn rule(&self) -> String {
        "generated values of every built-in implementation (i64, u64, f64 bitwise incl. NaN patterns, usize, bool, String, Vec<u8>, \
         Vec<T>, nested vectors, PathBuf, SystemTime before/after the epoch with nanoseconds, IpAddr/SocketAddr v4/v6 incl. mapped, \
         scoped and flow-labelled addresses, DbValue, DbKeyValue, DbF64, DbId, QueryId(s), QueryValues, every query struct through \
         QueryType, condition trees) and of a corpus of derived user types (unit/tuple/named structs, zero-sized types and vectors of them at the end and in the middle of a buffer, enums with unit/tuple/struct/wide \
         variants, nesting, generics, vectors of derived types): deserialize(serialize(x)) == x, re-serialization is byte-identical and \
         serialized_size(x) == serialize(x).len(). evaluations = values checked; distinct = distinct (type, variant, log2 size) triples"
            .into()
    }
    fn cases(&self, args: &Args) -> usize {
        args.u64("n", if args.thorough() { 4000 } else { 200 }) as usize
    }
    fn run_case(&self, args: &Args, case: usize, rep: &mut Report, _p: &dyn Fn(&str)) {
        let seed = derive(args.u64("seed", 1), &[tag("C20"), case as u64]);
        let mut rng = Rng::new(seed);
        let mut fired = std::collections::BTreeSet::new();
        let ctx = json!({"engine":"c20","case":case,"seed":args.u64("seed",1),"tier":args.str("tier","quick")});
        for _ in 0..60 {
            let mut g = G { rng: &mut rng };
            rt!(fired, rep, ctx, "i64", g.i64(), "");
            rt!(fired, rep, ctx, "u64", g.u64(), "");
            rt!(fired, rep, ctx, "usize", g.u64() as usize, "");
            rt!(fired, rep, ctx, "bool", g.rng.chance(1, 2), "");
            rt!(fired, rep, ctx, "String", g.string(), "");
            rt!(fired, rep, ctx, "Vec<u8>", g.bytes(), "");
            rt!(fired, rep, ctx, "Vec<i64>", (0..g.len()).map(|_| g.i64()).collect::<Vec<i64>>(), "");
            rt!(fired, rep, ctx, "Vec<String>", (0..g.len()).map(|_| g.string()).collect::<Vec<String>>(), "");
            rt!(fired, rep, ctx, "Vec<Vec<u64>>", (0..g.len().min(4)).map(|_| (0..g.len().min(5)).map(|_| g.u64()).collect()).collect::<Vec<Vec<u64>>>(), "");
            rt!(fired, rep, ctx, "Vec<bool>", (0..g.len()).map(|_| g.rng.chance(1, 2)).collect::<Vec<bool>>(), "");
            rt!(fired, rep, ctx, "PathBuf", g.path(), "");
            let t = g.time();
            rt!(fired, rep, ctx, "SystemTime", t, if t < UNIX_EPOCH { "before_epoch" } else { "after_epoch" });
            rt!(fired, rep, ctx, "IpAddr", g.ip(), "");
            let a = g.sockaddr(false);
            rt!(fired, rep, ctx, "SocketAddr", a, if a.is_ipv4() { "v4" } else { "v6" });
            let a = g.sockaddr(true);
            let variant = match a {
                SocketAddr::V4(_) => "v4",
                SocketAddr::V6(x) if x.flowinfo() != 0 && x.scope_id() != 0 => "v6_flowinfo_and_scope",
                SocketAddr::V6(x) if x.flowinfo() != 0 => "v6_flowinfo",
                SocketAddr::V6(_) => "v6_scope",
            };
            rt!(fired, rep, ctx, "SocketAddr", a, variant);
            let v = g.dbvalue();
            let vn = format!("{v:?}");
            rt!(fired, rep, ctx, "DbValue", v, vn.split('(').next().unwrap_or(""));
            rt!(fired, rep, ctx, "DbKeyValue", g.kv(), "");
            rt!(fired, rep, ctx, "DbF64", DbF64::from(g.f64()), "");
            rt!(fired, rep, ctx, "DbId", DbId(g.i64()), "");
            rt!(fired, rep, ctx, "QueryId", if g.rng.chance(1, 2) { QueryId::Id(DbId(g.i64())) } else { QueryId::Alias(g.string()) }, "");
            rt!(fired, rep, ctx, "QueryValues", if g.rng.chance(1, 2) { QueryValues::Single((0..g.len().min(4)).map(|_| g.kv()).collect()) } else { QueryValues::Multi((0..g.len().min(3)).map(|_| (0..g.len().min(3)).map(|_| g.kv()).collect()).collect()) }, "");
            rt!(fired, rep, ctx, "DbKeyOrder", if g.rng.chance(1, 2) { DbKeyOrder::Asc(g.dbvalue()) } else { DbKeyOrder::Desc(g.dbvalue()) }, "");
            rt!(fired, rep, ctx, "CountComparison", CountComparison::LessThanOrEqual(g.u64()), "");
            rt!(fired, rep, ctx, "Comparison", Comparison::Contains(g.dbvalue()), "");
            rt!(fired, rep, ctx, "KeyValueComparison", KeyValueComparison { key: g.dbvalue(), value: Comparison::NotEqual(g.dbvalue()) }, "");
            // derived corpus
            rt!(fired, rep, ctx, "derive:UnitLike", UnitLike {}, "");
            rt!(fired, rep, ctx, "derive:Tuple2", g.tuple2(), "");
            // zero-sized element types, at the end of the buffer and followed by more data
            rt!(fired, rep, ctx, "derive:Marker", Marker, "");
            rt!(fired, rep, ctx, "derive:Vec<UnitLike>", (0..g.len()).map(|_| UnitLike {}).collect::<Vec<UnitLike>>(), "");
            rt!(fired, rep, ctx, "derive:Vec<Marker>", (0..g.len()).map(|_| Marker).collect::<Vec<Marker>>(), "");
            rt!(fired, rep, ctx, "derive:Vec<WrapZ>", (0..g.len()).map(|_| WrapZ(UnitLike {})).collect::<Vec<WrapZ>>(), "");
            rt!(fired, rep, ctx, "derive:Vec<Vec<UnitLike>>", (0..g.len().min(4)).map(|_| (0..g.len().min(4)).map(|_| UnitLike {}).collect()).collect::<Vec<Vec<UnitLike>>>(), "");
            rt!(fired, rep, ctx, "derive:TrailZ", TrailZ { id: g.u64(), marks: (0..g.len().min(5)).map(|_| UnitLike {}).collect() }, "");
            rt!(fired, rep, ctx, "derive:MidZ", MidZ { marks: (0..g.len().min(5)).map(|_| Marker).collect(), name: g.string() }, "");
            rt!(fired, rep, ctx, "derive:Generic<UnitLike>", Generic { head: UnitLike {}, tail: (0..g.len().min(4)).map(|_| UnitLike {}).collect() }, "");
            rt!(fired, rep, ctx, "Vec<Vec<u8>>", (0..g.len().min(4)).map(|_| if g.rng.chance(1, 2) { vec![] } else { g.bytes() }).collect::<Vec<Vec<u8>>>(), "");
            rt!(fired, rep, ctx, "Vec<String>:empty_tail", { let mut v: Vec<String> = (0..g.len().min(4)).map(|_| g.string()).collect(); v.push(String::new()); v }, "");
            rt!(fired, rep, ctx, "derive:Named", g.named(), "");
            let s = g.shape();
            let sn = format!("{s:?}");
            rt!(fired, rep, ctx, "derive:Shape", s, sn.split(['(', ' ', '{']).next().unwrap_or(""));
            rt!(fired, rep, ctx, "derive:Vec<Shape>", (0..g.len().min(5)).map(|_| g.shape()).collect::<Vec<Shape>>(), "");
            rt!(fired, rep, ctx, "derive:Generic<Tuple2>", Generic { head: g.tuple2(), tail: (0..g.len().min(4)).map(|_| g.tuple2()).collect() }, "");
            rt!(fired, rep, ctx, "derive:Deep", g.deep(), "");
            // f64 bit patterns (NaN payloads): compare bitwise
            let bits = match g.rng.below(4) {
                0 => 0x7ff8_0000_0000_0000u64 | g.rng.below(1 << 20),
                1 => 0xfff0_0000_0000_0001u64,
                _ => g.rng.next_u64(),
            };
            let f = f64::from_bits(bits);
            if let Some((class, detail)) = roundtrip("f64", &f, |a, b| a.to_bits() == b.to_bits(), rep, if f.is_nan() { "nan" } else { "" }) {
                if fired.insert(class.clone()) {
                    rep.violation(&format!("C20:{class}"), &detail, ctx.clone());
                }
            }
        }
        for q in queries(seed) {
            let qn = format!("{q:?}");
            let variant = qn.split('(').next().unwrap_or("").to_string();
            rt!(fired, rep, ctx, "QueryType", q.clone(), &variant);
            // and every query struct / condition on its own
            match q {
                QueryType::Search(s) => {
                    rt!(fired, rep, ctx, "SearchQuery", s.clone(), "");
                    for c in s.conditions {
                        let cn = format!("{:?}", c.data);
                        rt!(fired, rep, ctx, "QueryCondition", c, cn.split(['(', ' ']).next().unwrap_or(""));
                    }
                }
                QueryType::InsertNodes(x) => rt!(fired, rep, ctx, "InsertNodesQuery", x, ""),
                QueryType::InsertEdges(x) => rt!(fired, rep, ctx, "InsertEdgesQuery", x, ""),
                QueryType::InsertAlias(x) => rt!(fired, rep, ctx, "InsertAliasesQuery", x, ""),
                QueryType::InsertValues(x) => rt!(fired, rep, ctx, "InsertValuesQuery", x, ""),
                QueryType::InsertIndex(x) => rt!(fired, rep, ctx, "InsertIndexQuery", x, ""),
                QueryType::RemoveIndex(x) => rt!(fired, rep, ctx, "RemoveIndexQuery", x, ""),
                QueryType::Remove(x) => rt!(fired, rep, ctx, "RemoveQuery", x, ""),
                QueryType::RemoveAliases(x) => rt!(fired, rep, ctx, "RemoveAliasesQuery", x, ""),
                QueryType::RemoveValues(x) => rt!(fired, rep, ctx, "RemoveValuesQuery", x, ""),
                QueryType::SelectValues(x) => rt!(fired, rep, ctx, "SelectValuesQuery", x, ""),
                _ => {}
            }
        }
        if case == 0 {
            let mut g = G { rng: &mut rng };
            rep.sample(|| json!({"examples": [format!("{:?}", g.deep()), format!("{:?}", g.shape()), format!("{:?}", g.sockaddr(true))]}));
        }
    }
}

// ---------------------------------------------------------------------------
// C21
// ---------------------------------------------------------------------------

pub struct C21;

type Deser = (&'static str, fn(&[u8]) -> bool);

fn d<T: AgdbSerialize>(b: &[u8]) -> bool {
    T::deserialize(b).is_ok()
}

fn typed<T: TryFrom<DbValue, Error = agdb::DbError>>(b: &[u8]) -> bool {
    Vec::<T>::try_from(DbValue::Bytes(b.to_vec())).is_ok()
}

fn typed_one<T: TryFrom<DbValue, Error = agdb::DbError>>(b: &[u8]) -> bool {
    T::try_from(DbValue::Bytes(b.to_vec())).is_ok()
}

pub fn deserializers() -> Vec<Deser> {
    vec![
        ("i64", d::<i64>),
        ("u64", d::<u64>),
        ("f64", d::<f64>),
        ("usize", d::<usize>),
        ("bool", d::<bool>),
        ("String", d::<String>),
        ("Vec<u8>", d::<Vec<u8>>),
        ("Vec<i64>", d::<Vec<i64>>),
        ("Vec<String>", d::<Vec<String>>),
        ("Vec<Vec<u64>>", d::<Vec<Vec<u64>>>),
        ("Vec<bool>", d::<Vec<bool>>),
        ("PathBuf", d::<PathBuf>),
        ("SystemTime", d::<SystemTime>),
        ("SocketAddr", d::<SocketAddr>),
        ("IpAddr", d::<IpAddr>),
        ("DbValue", d::<DbValue>),
        ("Vec<DbValue>", d::<Vec<DbValue>>),
        ("DbKeyValue", d::<DbKeyValue>),
        ("DbF64", d::<DbF64>),
        ("DbId", d::<DbId>),
        ("QueryId", d::<QueryId>),
        ("QueryIds", d::<QueryIds>),
        ("QueryValues", d::<QueryValues>),
        ("QueryCondition", d::<QueryCondition>),
        ("SearchQuery", d::<SearchQuery>),
        ("QueryType", d::<QueryType>),
        ("Vec<QueryType>", d::<Vec<QueryType>>),
        ("InsertNodesQuery", d::<InsertNodesQuery>),
        ("InsertEdgesQuery", d::<InsertEdgesQuery>),
        ("InsertValuesQuery", d::<InsertValuesQuery>),
        ("InsertAliasesQuery", d::<InsertAliasesQuery>),
        ("InsertIndexQuery", d::<InsertIndexQuery>),
        ("RemoveQuery", d::<RemoveQuery>),
        ("RemoveAliasesQuery", d::<RemoveAliasesQuery>),
        ("RemoveIndexQuery", d::<RemoveIndexQuery>),
        ("RemoveValuesQuery", d::<RemoveValuesQuery>),
        ("SelectValuesQuery", d::<SelectValuesQuery>),
        ("DbKeyOrder", d::<DbKeyOrder>),
        ("derive:Tuple2", d::<Tuple2>),
        ("derive:Named", d::<Named>),
        ("derive:Shape", d::<Shape>),
        ("derive:Vec<Shape>", d::<Vec<Shape>>),
        ("derive:Generic<Named>", d::<Generic<Named>>),
        ("derive:Deep", d::<Deep>),
        ("typed:Vec<i64>", typed::<i64>),
        ("typed:Vec<u64>", typed::<u64>),
        ("typed:Vec<f64>", typed::<f64>),
        ("typed:Vec<String>", typed::<String>),
        ("typed:Vec<bool>", typed::<bool>),
        ("typed:Vec<Vec<u8>>", typed::<Vec<u8>>),
        ("typed:SystemTime", typed_one::<SystemTime>),
    ]
}

const EXTREMES: [u64; 12] = [0, 1, 2, 7, 8, 255, 1 << 31, (1 << 32) + 1, 1 << 56, (1 << 63) - 1, 1 << 63, u64::MAX];

/// one valid encoding per deserializer family to mutate
fn valid_seeds(rng: &mut Rng) -> Vec<Vec<u8>> {
    let mut g = G { rng };
    let mut v: Vec<Vec<u8>> = vec![
        g.string().serialize(),
        g.bytes().serialize(),
        (0..5).map(|_| g.i64()).collect::<Vec<i64>>().serialize(),
        (0..4).map(|_| g.string()).collect::<Vec<String>>().serialize(),
        g.time().serialize(),
        g.sockaddr(true).serialize(),
        g.dbvalue().serialize(),
        (0..4).map(|_| g.dbvalue()).collect::<Vec<DbValue>>().serialize(),
        g.kv().serialize(),
        g.named().serialize(),
        g.shape().serialize(),
        (0..3).map(|_| g.shape()).collect::<Vec<Shape>>().serialize(),
        g.deep().serialize(),
    ];
    for q in queries(g.rng.next_u64()).into_iter().take(12) {
        v.push(q.serialize());
    }
    v
}

fn mutate(rng: &mut Rng, base: &[u8]) -> Vec<u8> {
    let mut b = base.to_vec();
    match rng.below(9) {
        0 => {
            // truncate at any boundary
            let n = rng.usize(b.len() + 1);
            b.truncate(n);
        }
        1 => {
            if !b.is_empty() {
                let i = rng.usize(b.len());
                b[i] ^= 1 << rng.below(8);
            }
        }
        2 | 3 | 4 => {
            // overwrite an aligned-or-not 8-byte field (length prefixes live at such places) with an extreme
            if b.len() >= 8 {
                let i = if rng.chance(1, 2) { 0 } else { rng.usize(b.len() - 7) };
                let x = EXTREMES[rng.usize(EXTREMES.len())];
                b[i..i + 8].copy_from_slice(&x.to_le_bytes());
            } else {
                b = EXTREMES[rng.usize(EXTREMES.len())].to_le_bytes().to_vec();
            }
        }
        5 => {
            // splice
            let n = rng.usize(24);
            let extra = rng.bytes(n);
            let i = rng.usize(b.len() + 1);
            for (k, x) in extra.into_iter().enumerate() {
                b.insert(i + k, x);
            }
        }
        6 => {
            // single byte := extreme (enum tags, type tags)
            if !b.is_empty() {
                let i = rng.usize(b.len().min(12));
                b[i] = [0u8, 1, 9, 10, 17, 18, 127, 128, 254, 255][rng.usize(10)];
            }
        }
        7 => {
            let n = rng.usize(64);
            b = rng.bytes(n);
        }
        _ => {
            // length prefix extreme followed by a little data
            let mut x = EXTREMES[rng.usize(EXTREMES.len())].to_le_bytes().to_vec();
            let n = rng.usize(32);
            x.extend(rng.bytes(n));
            b = x;
        }
    }
    b
}

impl CaseEngine for C21 {
    fn property(&self) -> &'static str {
        "C21"
    }
    fn rule(&self) -> String {
        format!(
            "{} deserializers (every built-in implementation, every query struct, derived user types, and typed conversions of byte-array \
             values: Vec<T>::try_from(DbValue::Bytes), SystemTime::try_from) fed random bytes, mutated valid encodings (truncation at \
             every boundary, bit flips, 8-byte fields and tag bytes overwritten with extremes, splices) and length-prefix extremes, under \
             the panic monitor and an allocation cap of 64 MiB (inputs are < 1 KiB) in the dev profile (overflow checks on); verdict = no \
             panic, no abort, no request above the cap. evaluations = (input, deserializer) executions; distinct = distinct (deserializer, \
             mutation kind, outcome) triples",
            deserializers().len()
        )
    }
    fn cases(&self, args: &Args) -> usize {
        args.u64("n", if args.thorough() { 6000 } else { 320 }) as usize
    }
    fn alloc_cap(&self) -> usize {
        64 << 20
    }
    fn run_case(&self, args: &Args, case: usize, rep: &mut Report, progress: &dyn Fn(&str)) {
        let seed = derive(args.u64("seed", 1), &[tag("C21"), case as u64]);
        let mut rng = Rng::new(seed);
        let des = deserializers();
        let seeds = valid_seeds(&mut rng);
        let mut fired = std::collections::BTreeSet::new();
        for round in 0..args.u64("inputs", 150) {
            let base = &seeds[rng.usize(seeds.len())];
            let input = mutate(&mut rng, base);
            // the parent attributes an abort of the worker to this input
            let _ = round;
            progress(&format!("input input_hex={}", vcore::report::hex(&input[..input.len().min(96)])));
            for (name, f) in &des {
                rep.eval();
                match panicmon::catch(|| f(&input)) {
                    Ok(ok) => {
                        rep.distinct_hash(tag(&format!("{name}|{ok}|{}", input.len().min(40))));
                        if ok {
                            rep.count("inputs_accepted");
                        } else {
                            rep.count("inputs_rejected");
                        }
                    }
                    Err(p) => {
                        let sig = format!("C21:{}:{name}", p.signature());
                        if fired.insert(sig.clone()) {
                            rep.violation(
                                &sig,
                                &format!("{name} on {} bytes {}: panic {} at {}:{}", input.len(), vcore::report::hex(&input[..input.len().min(64)]), p.message, p.file, p.line),
                                json!({"engine":"c21","case":case,"seed":args.u64("seed",1),"tier":args.str("tier","quick"),"deserializer":name,"input_hex":vcore::report::hex(&input)}),
                            );
                        }
                    }
                }
            }
        }
        if case == 0 {
            rep.sample(|| json!({"deserializers": des.iter().map(|d| d.0).collect::<Vec<_>>(), "example_input_hex": vcore::report::hex(&mutate(&mut rng, &seeds[0]))}));
        }
    }
    fn finish(&self, _args: &Args, rep: &mut Report) {
        rep.require("inputs_accepted", 1000);
        rep.require("inputs_rejected", 1000);
    }
}
