//! Storage-layer engines: C04 (space reuse vs byte-map model, three back-ends)
//! and C01 (WAL recovery at every crash point).

use agdb::FileStorage;
use agdb::FileStorageMemoryMapped;
use agdb::MemoryStorage;
use agdb::StorageData;
use agdb::verif::FsFile;
use agdb::verif::FsOp;
use agdb::verif::StorageHandle;
use serde_json::Value;
use serde_json::json;
use std::collections::BTreeMap;
use std::collections::BTreeSet;
use vcore::Args;
use vcore::crash;
use vcore::panicmon;
use vcore::report::Report;
use vcore::report::hex;
use vcore::report::unhex;
use vcore::rng::Rng;
use vcore::rng::derive;
use vcore::rng::tag;

#[derive(Clone, Debug, PartialEq)]
pub enum Op {
    Insert(Vec<u8>),
    InsertAt { slot: usize, off: u64, bytes: Vec<u8> },
    Replace { slot: usize, bytes: Vec<u8> },
    Resize { slot: usize, n: u64 },
    Move { slot: usize, from: u64, to: u64, size: u64 },
    Remove { slot: usize },
    Optimize,
    Reopen,
    ReadRemoved,
    Begin,
    Commit,
}

impl Op {
    pub fn kind(&self) -> &'static str {
        match self {
            Op::Insert(_) => "insert",
            Op::InsertAt { .. } => "insert_at",
            Op::Replace { .. } => "replace",
            Op::Resize { .. } => "resize",
            Op::Move { .. } => "move",
            Op::Remove { .. } => "remove",
            Op::Optimize => "optimize",
            Op::Reopen => "reopen",
            Op::ReadRemoved => "read_removed",
            Op::Begin => "begin",
            Op::Commit => "commit",
        }
    }
    pub fn to_json(&self) -> Value {
        match self {
            Op::Insert(b) => json!({"op":"insert","bytes":hex(b)}),
            Op::InsertAt { slot, off, bytes } => {
                json!({"op":"insert_at","slot":slot,"off":off,"bytes":hex(bytes)})
            }
            Op::Replace { slot, bytes } => json!({"op":"replace","slot":slot,"bytes":hex(bytes)}),
            Op::Resize { slot, n } => json!({"op":"resize","slot":slot,"n":n}),
            Op::Move {
                slot,
                from,
                to,
                size,
            } => json!({"op":"move","slot":slot,"from":from,"to":to,"size":size}),
            Op::Remove { slot } => json!({"op":"remove","slot":slot}),
            Op::Optimize => json!({"op":"optimize"}),
            Op::Reopen => json!({"op":"reopen"}),
            Op::ReadRemoved => json!({"op":"read_removed"}),
            Op::Begin => json!({"op":"begin"}),
            Op::Commit => json!({"op":"commit"}),
        }
    }
    pub fn from_json(v: &Value) -> Op {
        let u = |k: &str| v[k].as_u64().unwrap_or(0);
        let b = |k: &str| unhex(v[k].as_str().unwrap_or(""));
        match v["op"].as_str().unwrap_or("") {
            "insert" => Op::Insert(b("bytes")),
            "insert_at" => Op::InsertAt {
                slot: u("slot") as usize,
                off: u("off"),
                bytes: b("bytes"),
            },
            "replace" => Op::Replace {
                slot: u("slot") as usize,
                bytes: b("bytes"),
            },
            "resize" => Op::Resize {
                slot: u("slot") as usize,
                n: u("n"),
            },
            "move" => Op::Move {
                slot: u("slot") as usize,
                from: u("from"),
                to: u("to"),
                size: u("size"),
            },
            "remove" => Op::Remove {
                slot: u("slot") as usize,
            },
            "optimize" => Op::Optimize,
            "reopen" => Op::Reopen,
            "read_removed" => Op::ReadRemoved,
            "begin" => Op::Begin,
            _ => Op::Commit,
        }
    }
}

pub fn ops_json(ops: &[Op]) -> Value {
    Value::Array(ops.iter().map(|o| o.to_json()).collect())
}

/// Byte-map model of the storage layer.
#[derive(Clone, Debug, Default, PartialEq)]
pub struct Model {
    pub live: BTreeMap<u64, Vec<u8>>,
    pub removed: BTreeSet<u64>,
}

impl Model {
    fn slot(&self, slot: usize) -> Option<u64> {
        if self.live.is_empty() {
            None
        } else {
            self.live.keys().nth(slot % self.live.len()).copied()
        }
    }
    fn insert_at(v: &mut Vec<u8>, off: u64, bytes: &[u8]) {
        let end = off as usize + bytes.len();
        if v.len() < end {
            v.resize(end, 0);
        }
        v[off as usize..end].copy_from_slice(bytes);
    }
    /// memmove + zero of the vacated part (what `Storage::move_at` documents by its tests)
    fn move_at(v: &mut Vec<u8>, from: u64, to: u64, size: u64) {
        let bytes = v[from as usize..(from + size) as usize].to_vec();
        Self::insert_at(v, to, &bytes);
        if from < to {
            let n = std::cmp::min(size, to - from);
            for b in &mut v[from as usize..(from + n) as usize] {
                *b = 0;
            }
        } else if from > to {
            let position = std::cmp::max(to + size, from);
            for b in &mut v[position as usize..(from + size) as usize] {
                *b = 0;
            }
        }
    }
    pub fn packed_len(&self) -> u64 {
        24 + self.live.values().map(|v| 16 + v.len() as u64).sum::<u64>()
    }
}

fn gen_bytes(rng: &mut Rng, max: usize) -> Vec<u8> {
    // bias to small sizes and to the 16-byte record-header boundary
    let n = match rng.below(10) {
        0 => 0,
        1 => rng.usize(4),
        2 => 15 + rng.usize(3),
        3 => 31 + rng.usize(3),
        _ => rng.usize(max + 1),
    };
    // recognisable non-zero content so zero fill is distinguishable
    let tagb = (rng.below(250) + 1) as u8;
    (0..n).map(|i| tagb.wrapping_add(i as u8) | 1).collect()
}

pub fn gen_op(rng: &mut Rng, model_sizes: &[u64], max_live: usize, max_size: usize) -> Op {
    let live = model_sizes.len();
    let w: [u32; 9] = if live == 0 {
        [10, 0, 0, 0, 0, 0, 1, 0, 1]
    } else if live >= max_live {
        [1, 6, 6, 6, 5, 10, 2, 1, 1]
    } else {
        [8, 6, 6, 6, 5, 6, 2, 1, 1]
    };
    match rng.weighted(&w) {
        0 => Op::Insert(gen_bytes(rng, max_size)),
        1 => {
            let slot = rng.usize(live);
            let size = model_sizes[slot];
            let off = match rng.below(5) {
                0 => size,
                1 => size + rng.below(40),
                _ => rng.below(size + 1),
            };
            Op::InsertAt {
                slot,
                off,
                bytes: gen_bytes(rng, max_size / 2),
            }
        }
        2 => Op::Replace {
            slot: rng.usize(live),
            bytes: gen_bytes(rng, max_size),
        },
        3 => {
            let slot = rng.usize(live);
            let size = model_sizes[slot];
            let n = match rng.below(6) {
                0 => 0,
                1 => size.saturating_sub(rng.below(16) + 1),
                2 => size + rng.below(16) + 1,
                3 => size,
                _ => rng.below(max_size as u64 + 1),
            };
            Op::Resize { slot, n }
        }
        4 => {
            let slot = rng.usize(live);
            let size = model_sizes[slot];
            if size == 0 {
                return Op::Insert(gen_bytes(rng, max_size));
            }
            let from = rng.below(size);
            let len = rng.below(size - from + 1);
            let to = match rng.below(4) {
                0 => size,
                1 => size + rng.below(10),
                _ => rng.below(size + 1),
            };
            Op::Move {
                slot,
                from,
                to,
                size: len,
            }
        }
        5 => Op::Remove {
            slot: rng.usize(live),
        },
        6 => Op::Optimize,
        7 => Op::Reopen,
        _ => Op::ReadRemoved,
    }
}

pub struct Exec<D: StorageData> {
    pub h: Option<StorageHandle<D>>,
    pub path: String,
    pub is_memory: bool,
    pub model: Model,
}

#[derive(Debug)]
pub struct Mismatch {
    pub kind: String,
    pub detail: String,
}

impl<D: StorageData> Exec<D> {
    pub fn open(path: &str, is_memory: bool) -> Result<Self, String> {
        let h = StorageHandle::<D>::new(path).map_err(|e| format!("open: {e:?}"))?;
        Ok(Exec {
            h: Some(h),
            path: path.to_string(),
            is_memory,
            model: Model::default(),
        })
    }
    fn h(&mut self) -> &mut StorageHandle<D> {
        self.h.as_mut().unwrap()
    }
    pub fn sizes(&self) -> Vec<u64> {
        self.model.live.values().map(|v| v.len() as u64).collect()
    }

    /// applies one op to implementation and model; Err = monitor fired
    pub fn step(&mut self, op: &Op) -> Result<(), Mismatch> {
        let mm = |kind: &str, detail: String| Mismatch {
            kind: kind.to_string(),
            detail,
        };
        match op {
            Op::Insert(bytes) => {
                let idx = self
                    .h()
                    .insert_bytes(bytes)
                    .map_err(|e| mm("op_failed", format!("insert: {e:?}")))?;
                if idx == 0 || self.model.live.contains_key(&idx) {
                    return Err(mm(
                        "index_in_use",
                        format!("insert returned index {idx} which is live"),
                    ));
                }
                self.model.removed.remove(&idx);
                self.model.live.insert(idx, bytes.clone());
            }
            Op::InsertAt { slot, off, bytes } => {
                if let Some(idx) = self.model.slot(*slot) {
                    self.h()
                        .insert_bytes_at(idx, *off, bytes)
                        .map_err(|e| mm("op_failed", format!("insert_at: {e:?}")))?;
                    Model::insert_at(self.model.live.get_mut(&idx).unwrap(), *off, bytes);
                }
            }
            Op::Replace { slot, bytes } => {
                if let Some(idx) = self.model.slot(*slot) {
                    self.h()
                        .replace_with_bytes(idx, bytes)
                        .map_err(|e| mm("op_failed", format!("replace: {e:?}")))?;
                    self.model.live.insert(idx, bytes.clone());
                }
            }
            Op::Resize { slot, n } => {
                if let Some(idx) = self.model.slot(*slot) {
                    self.h()
                        .resize_value(idx, *n)
                        .map_err(|e| mm("op_failed", format!("resize: {e:?}")))?;
                    self.model
                        .live
                        .get_mut(&idx)
                        .unwrap()
                        .resize(*n as usize, 0);
                }
            }
            Op::Move {
                slot,
                from,
                to,
                size,
            } => {
                if let Some(idx) = self.model.slot(*slot) {
                    let len = self.model.live[&idx].len() as u64;
                    if from + size <= len {
                        self.h()
                            .move_at(idx, *from, *to, *size)
                            .map_err(|e| mm("op_failed", format!("move: {e:?}")))?;
                        Model::move_at(self.model.live.get_mut(&idx).unwrap(), *from, *to, *size);
                    }
                }
            }
            Op::Remove { slot } => {
                if let Some(idx) = self.model.slot(*slot) {
                    self.h()
                        .remove(idx)
                        .map_err(|e| mm("op_failed", format!("remove: {e:?}")))?;
                    self.model.live.remove(&idx);
                    self.model.removed.insert(idx);
                }
            }
            Op::Optimize => {
                self.h()
                    .optimize_storage()
                    .map_err(|e| mm("op_failed", format!("optimize: {e:?}")))?;
                let len = self.h().len();
                let want = self.model.packed_len();
                if len != want {
                    return Err(mm(
                        "unused_space_after_optimize",
                        format!("len after optimize {len} != packed {want}"),
                    ));
                }
            }
            Op::Reopen => {
                if self.is_memory {
                    let p = self.path.clone();
                    self.h()
                        .backup(&p)
                        .map_err(|e| mm("op_failed", format!("backup: {e:?}")))?;
                }
                self.h = None;
                let h = StorageHandle::<D>::new(&self.path)
                    .map_err(|e| mm("reopen_failed", format!("{e:?}")))?;
                self.h = Some(h);
                if self.is_memory {
                    let _ = std::fs::remove_file(&self.path);
                }
            }
            Op::ReadRemoved => {}
            Op::Begin | Op::Commit => {}
        }
        Ok(())
    }

    /// full comparison of implementation and model
    pub fn check(&mut self) -> Result<(), Mismatch> {
        let live: Vec<(u64, Vec<u8>)> = self
            .model
            .live
            .iter()
            .map(|(k, v)| (*k, v.clone()))
            .collect();
        for (idx, want) in live {
            match self.h().value_as_bytes(idx) {
                Ok(got) => {
                    if got != want {
                        return Err(Mismatch {
                            kind: "value_differs".into(),
                            detail: format!(
                                "index {idx}: got {} want {}",
                                hex(&got),
                                hex(&want)
                            ),
                        });
                    }
                }
                Err(e) => {
                    return Err(Mismatch {
                        kind: "live_value_unreadable".into(),
                        detail: format!("index {idx}: {e:?}"),
                    });
                }
            }
            let sz = self.h().value_size(idx).unwrap_or(u64::MAX);
            if sz != self.model.live[&idx].len() as u64 {
                return Err(Mismatch {
                    kind: "size_differs".into(),
                    detail: format!("index {idx}: size {sz}"),
                });
            }
        }
        let removed: Vec<u64> = self.model.removed.iter().copied().collect();
        for idx in removed {
            if let Ok(v) = self.h().value_as_bytes(idx) {
                return Err(Mismatch {
                    kind: "removed_value_readable".into(),
                    detail: format!("index {idx} readable after removal: {}", hex(&v)),
                });
            }
        }
        Ok(())
    }
}

fn run_c04_history<D: StorageData>(
    backend: &str,
    path: &str,
    ops: &[Op],
    rep: &mut Report,
) -> Option<(usize, Mismatch)> {
    let is_memory = backend == "memory";
    let _ = std::fs::remove_file(path);
    let _ = std::fs::remove_file(wal_name(path));
    let mut ex = match Exec::<D>::open(path, is_memory) {
        Ok(e) => e,
        Err(e) => {
            return Some((
                0,
                Mismatch {
                    kind: "open_failed".into(),
                    detail: e,
                },
            ));
        }
    };
    let mut prev = "start";
    for (i, op) in ops.iter().enumerate() {
        let before_len = ex.h().len();
        if let Err(m) = ex.step(op) {
            return Some((i, m));
        }
        if let Err(m) = ex.check() {
            return Some((i, m));
        }
        let after_len = ex.h().len();
        let delta = (after_len as i64 - before_len as i64).signum();
        rep.count(&format!("op_{}", op.kind()));
        rep.distinct_hash(tag(&format!("{backend}|{prev}|{}|{delta}", op.kind())));
        prev = op.kind();
    }
    // final: optimize + reopen must preserve everything and pack the file
    for op in [Op::Optimize, Op::Reopen, Op::Optimize] {
        if let Err(m) = ex.step(&op) {
            return Some((ops.len(), m));
        }
        if let Err(m) = ex.check() {
            return Some((ops.len(), m));
        }
    }
    drop(ex);
    let _ = std::fs::remove_file(path);
    let _ = std::fs::remove_file(wal_name(path));
    None
}

pub fn wal_name(path: &str) -> String {
    match path.rfind('/') {
        Some(i) => format!("{}/.{}", &path[..i], &path[i + 1..]),
        None => format!(".{path}"),
    }
}

fn gen_history(rng: &mut Rng, len: usize, max_live: usize, max_size: usize) -> Vec<Op> {
    // generation needs value sizes: simulate the model alongside
    let mut model = Model::default();
    let mut next_fake = 1u64;
    let mut ops = vec![];
    for _ in 0..len {
        let sizes: Vec<u64> = model.live.values().map(|v| v.len() as u64).collect();
        let op = gen_op(rng, &sizes, max_live, max_size);
        // mirror on the fake model (indexes are fake but slots are positional,
        // and positional order may differ from the real index order; sizes are
        // only a generation hint, the executor re-validates against its own model)
        match &op {
            Op::Insert(b) => {
                model.live.insert(next_fake, b.clone());
                next_fake += 1;
            }
            Op::InsertAt { slot, off, bytes } => {
                if let Some(i) = model.slot(*slot) {
                    Model::insert_at(model.live.get_mut(&i).unwrap(), *off, bytes);
                }
            }
            Op::Replace { slot, bytes } => {
                if let Some(i) = model.slot(*slot) {
                    model.live.insert(i, bytes.clone());
                }
            }
            Op::Resize { slot, n } => {
                if let Some(i) = model.slot(*slot) {
                    model.live.get_mut(&i).unwrap().resize(*n as usize, 0);
                }
            }
            Op::Remove { slot } => {
                if let Some(i) = model.slot(*slot) {
                    model.live.remove(&i);
                }
            }
            _ => {}
        }
        ops.push(op);
    }
    ops
}

pub fn run_c04_one(backend: &str, path: &str, ops: &[Op], rep: &mut Report) -> bool {
    let r = panicmon::catch(|| match backend {
        "memory" => run_c04_history::<MemoryStorage>(backend, path, ops, rep),
        "file" => run_c04_history::<FileStorage>(backend, path, ops, rep),
        _ => run_c04_history::<FileStorageMemoryMapped>(backend, path, ops, rep),
    });
    let replay = |at: usize| json!({"engine":"c04","backend":backend,"ops":ops_json(ops),"failed_at":at});
    match r {
        Ok(None) => true,
        Ok(Some((at, m))) => {
            let opk = ops.get(at).map(|o| o.kind()).unwrap_or("final");
            rep.violation(
                &format!("C04:{}:{}", m.kind, opk),
                &format!("backend {backend} op #{at} ({opk}): {}", m.detail),
                replay(at),
            );
            false
        }
        Err(p) => {
            rep.violation(
                &format!("C04:{}", p.signature()),
                &format!("backend {backend}: panic {} at {}:{}", p.message, p.file, p.line),
                replay(usize::MAX),
            );
            false
        }
    }
}

pub struct C04;

impl vcore::workers::CaseEngine for C04 {
    fn property(&self) -> &'static str {
        "C04"
    }
    fn rule(&self) -> String {
        "random histories of insert/insert_at/replace/resize/move/remove/optimize/reopen \
        (<=16 live records, sizes 0..200 B) run on MemoryStorage, FileStorage and \
        FileStorageMemoryMapped via StorageHandle against a byte-map model; evaluations = (history, back-end) runs; \
        distinct = distinct (backend, previous op kind, op kind, sign of file-length change) tuples observed"
            .into()
    }
    fn cases(&self, args: &Args) -> usize {
        args.u64("n", if args.thorough() { 10_000 } else { 1500 }) as usize
    }
    fn run_case(&self, args: &Args, i: usize, rep: &mut Report, _p: &dyn Fn(&str)) {
        let seed = args.u64("seed", 1);
        let len = args.u64("len", if args.thorough() { 200 } else { 70 }) as usize;
        let scratch = args.str("scratch", "/verif/scratch/c04");
        let _ = std::fs::create_dir_all(&scratch);
        let mut rng = Rng::new(derive(seed, &[tag("C04"), i as u64]));
        let ops = gen_history(&mut rng, len, 16, 200);
        for backend in ["memory", "file", "mapped"] {
            let path = format!("{scratch}/h{i}_{backend}.agdb");
            rep.eval();
            run_c04_one(backend, &path, &ops, rep);
        }
        if i < 2 {
            rep.sample(|| json!({"history": i, "ops": ops_json(&ops[..ops.len().min(25)])}));
        }
    }
    fn finish(&self, args: &Args, rep: &mut Report) {
        for k in [
            "op_insert",
            "op_insert_at",
            "op_replace",
            "op_resize",
            "op_move",
            "op_remove",
            "op_optimize",
            "op_reopen",
        ] {
            rep.require(k, 10);
        }
        rep.assumptions.push(
            "operations are issued on live indexes only (plus reads of removed indexes); \
             the model of move is memmove + zeroing of the vacated bytes"
                .into(),
        );
        let _ = std::fs::remove_dir_all(args.str("scratch", "/verif/scratch/c04"));
    }
}

// ---------------------------------------------------------------------------
// C01: WAL recovery at every crash point
// ---------------------------------------------------------------------------

#[derive(Clone, Debug)]
struct Snapshot {
    events: usize,
    content: BTreeMap<u64, Vec<u8>>,
    len: u64,
}

fn read_content<D: StorageData>(h: &StorageHandle<D>, max_index: u64) -> BTreeMap<u64, Vec<u8>> {
    let mut m = BTreeMap::new();
    for i in 1..=max_index {
        if let Ok(v) = h.value_as_bytes(i) {
            m.insert(i, v);
        }
    }
    m
}


fn gen_program(rng: &mut Rng, len: usize) -> Vec<Op> {
    let mut ops = vec![];
    let mut model = Model::default();
    let mut next_fake = 1u64;
    let mut depth = 0;
    // committed preamble so there is content to damage
    for _ in 0..rng.usize(4) {
        let b = gen_bytes(rng, 96);
        model.live.insert(next_fake, b.clone());
        next_fake += 1;
        ops.push(Op::Insert(b));
    }
    while ops.len() < len {
        let r = rng.below(100);
        if r < 14 && depth < 3 {
            ops.push(Op::Begin);
            depth += 1;
            continue;
        }
        if r < 26 && depth > 0 {
            ops.push(Op::Commit);
            depth -= 1;
            continue;
        }
        let sizes: Vec<u64> = model.live.values().map(|v| v.len() as u64).collect();
        let mut op = gen_op(rng, &sizes, 12, 96);
        if matches!(op, Op::Reopen | Op::ReadRemoved) {
            op = Op::Optimize;
        }
        // re-write bias: repeat an op on the same slot inside a transaction
        match &op {
            Op::Insert(b) => {
                model.live.insert(next_fake, b.clone());
                next_fake += 1;
            }
            Op::InsertAt { slot, off, bytes } => {
                if let Some(i) = model.slot(*slot) {
                    Model::insert_at(model.live.get_mut(&i).unwrap(), *off, bytes);
                }
            }
            Op::Replace { slot, bytes } => {
                if let Some(i) = model.slot(*slot) {
                    model.live.insert(i, bytes.clone());
                }
            }
            Op::Resize { slot, n } => {
                if let Some(i) = model.slot(*slot) {
                    model.live.get_mut(&i).unwrap().resize(*n as usize, 0);
                }
            }
            Op::Remove { slot } => {
                if let Some(i) = model.slot(*slot) {
                    model.live.remove(&i);
                }
            }
            _ => {}
        }
        ops.push(op);
    }
    // sometimes leave the transaction(s) open: drop with unfinished transaction
    if depth > 0 && rng.chance(1, 2) {
        for _ in 0..depth {
            ops.push(Op::Commit);
        }
    }
    ops
}

fn compare_recovered(
    dir: &str,
    img: &crash::Images,
    expect: &Snapshot,
    max_index: u64,
    mapped: bool,
) -> Result<(), (String, String)> {
    let path = crash::write_images(dir, "r.agdb", img);
    let res = panicmon::catch(|| -> Result<(), (String, String)> {
        let (content, len) = if mapped {
            let h = StorageHandle::<FileStorageMemoryMapped>::new(&path)
                .map_err(|e| ("recover_open_failed".to_string(), format!("{e:?}")))?;
            (read_content(&h, max_index), h.len())
        } else {
            let h = StorageHandle::<FileStorage>::new(&path)
                .map_err(|e| ("recover_open_failed".to_string(), format!("{e:?}")))?;
            (read_content(&h, max_index), h.len())
        };
        if content != expect.content {
            let mut d = String::new();
            for i in 1..=max_index {
                let a = content.get(&i);
                let b = expect.content.get(&i);
                if a != b {
                    d = format!(
                        "index {i}: recovered {:?} expected {:?}",
                        a.map(|x| hex(x)),
                        b.map(|x| hex(x))
                    );
                    break;
                }
            }
            return Err(("recovered_content_differs".into(), d));
        }
        if len != expect.len {
            return Err((
                "recovered_length_differs".into(),
                format!("recovered file length {len} expected {}", expect.len),
            ));
        }
        Ok(())
    });
    match res {
        Ok(r) => r,
        Err(p) => Err((
            p.signature(),
            format!("panic during recovery: {} at {}:{}", p.message, p.file, p.line),
        )),
    }
}

/// runs one program on one back-end, enumerates every crash point
pub fn run_c01_program(
    backend: &str,
    dir: &str,
    ops: &[Op],
    tears: bool,
    rep: &mut Report,
    progress: &dyn Fn(&str),
) {
    let path = format!("{dir}/p.agdb");
    let _ = std::fs::remove_file(&path);
    let _ = std::fs::remove_file(wal_name(&path));
    let replay = |k: i64, tear: i64| json!({"engine":"c01","backend":backend,"ops":ops_json(ops),"crash_before_call":k,"tear_bytes":tear});

    // ---- recorded run ----
    let recorded = panicmon::catch(|| -> Result<_, String> {
        let mut snaps: Vec<Snapshot> = vec![];
        let mut max_index = 4u64;
        let mapped = backend == "mapped";
        // two monomorphic copies would be noisy: use a small trait object via enum
        enum H {
            F(Exec<FileStorage>),
            M(Exec<FileStorageMemoryMapped>),
        }
        let mut ex = if mapped {
            H::M(Exec::<FileStorageMemoryMapped>::open(&path, false)?)
        } else {
            H::F(Exec::<FileStorage>::open(&path, false)?)
        };
        let initial = crash::read_images(&path);
        let rec = crash::install();
        let mut depth_ids: Vec<u64> = vec![];
        macro_rules! with {
            ($ex:ident, $body:expr) => {
                match &mut ex {
                    H::F($ex) => $body,
                    H::M($ex) => $body,
                }
            };
        }
        let snap = |events: usize, content: BTreeMap<u64, Vec<u8>>, len: u64| Snapshot {
            events,
            content,
            len,
        };
        snaps.push(snap(0, BTreeMap::new(), with!(e, e.h().len())));
        for (i, op) in ops.iter().enumerate() {
            rec.borrow_mut().step = i;
            match op {
                Op::Begin => {
                    let id = with!(e, e.h().transaction());
                    depth_ids.push(id);
                }
                Op::Commit => {
                    if let Some(id) = depth_ids.pop() {
                        with!(e, e.h().commit(id)).map_err(|e| format!("commit: {e:?}"))?;
                    }
                }
                _ => {
                    with!(e, e.step(op)).map_err(|m| format!("op {i} {}: {}", m.kind, m.detail))?;
                }
            }
            if depth_ids.is_empty() {
                let (content, len) = with!(e, (e.model.live.clone(), e.h().len()));
                if let Some(m) = content.keys().max() {
                    max_index = max_index.max(*m + 2);
                }
                let n = rec.borrow().events.len();
                snaps.push(snap(n, content, len));
            }
            let m = with!(e, e.model.live.keys().max().copied().unwrap_or(0));
            max_index = max_index.max(m + 2);
        }
        rec.borrow_mut().step = ops.len();
        let open_at_drop = depth_ids.len();
        drop(ex); // Drop applies the WAL if a transaction is unfinished
        crash::uninstall();
        let events = rec.borrow().events.clone();
        Ok((initial, events, snaps, max_index, open_at_drop))
    });
    crash::uninstall();
    let (initial, events, snaps, max_index, open_at_drop) = match recorded {
        Ok(Ok(x)) => x,
        Ok(Err(e)) => {
            rep.inconclusive(&format!("C01 recorded run failed: {e}"));
            rep.count("recorded_run_failed");
            return;
        }
        Err(p) => {
            rep.violation(
                &format!("C01:{}", p.signature()),
                &format!("panic in recorded run: {} at {}:{}", p.message, p.file, p.line),
                replay(-1, -1),
            );
            return;
        }
    };

    // ---- shadow self-check: hooks saw every mutating call ----
    let mut img = initial.clone();
    for l in &events {
        crash::apply(&mut img, &l.ev);
    }
    let real = crash::read_images(&path);
    if real != img {
        rep.coverage_fail.push(format!(
            "shadow images differ from real files after the run (data {} vs {}, wal {} vs {}): a mutating call bypassed the fs_event hooks",
            img.data.len(), real.data.len(), img.wal.len(), real.wal.len()
        ));
        return;
    }
    rep.count("shadow_selfcheck_ok");
    if open_at_drop > 0 {
        rep.count("programs_dropped_with_open_transaction");
    }

    // ---- feature counters from the event log ----
    let mut wal_records = 0usize;
    let mut max_wal_records = 0usize;
    let mut written: Vec<(u64, u64)> = vec![];
    let mut double_write = false;
    let mut zero_len_inside = false;
    let mut data_len = initial.data.len() as u64;
    for l in &events {
        match (&l.ev.file, &l.ev.op) {
            (FsFile::Wal, FsOp::Append { .. }) if l.ev.site == "wal_insert_pos" => {
                wal_records += 1;
                max_wal_records = max_wal_records.max(wal_records);
            }
            (FsFile::Wal, FsOp::SetLen { len: 0 }) => {
                wal_records = 0;
                written.clear();
            }
            (FsFile::Data, FsOp::WriteAt { pos, bytes }) if l.ev.site == "write" => {
                let (a, b) = (*pos, *pos + bytes.len() as u64);
                if bytes.is_empty() && *pos < data_len {
                    zero_len_inside = true;
                }
                if written.iter().any(|(c, d)| a < *d && *c < b) {
                    double_write = true;
                }
                written.push((a, b));
                data_len = data_len.max(b);
            }
            (FsFile::Data, FsOp::SetLen { len }) => data_len = *len,
            _ => {}
        }
    }
    if double_write {
        rep.count("programs_rewriting_a_region_in_one_transaction");
    }
    if zero_len_inside {
        rep.count("programs_with_zero_length_write_inside_file");
    }
    if max_wal_records >= 50 {
        rep.count("programs_with_wal_of_50_records");
    }
    rep.max("max_wal_records", max_wal_records as i64);
    rep.max("max_events_per_program", events.len() as i64);

    // ---- every crash point ----
    let mut img = initial.clone();
    let mut snap_i = 0usize;
    let mut fired: BTreeSet<String> = BTreeSet::new();
    for k in 0..=events.len() {
        while snap_i + 1 < snaps.len() && snaps[snap_i + 1].events <= k {
            snap_i += 1;
        }
        let expect = &snaps[snap_i];
        rep.eval();
        let site = events.get(k).map(|l| l.ev.site).unwrap_or("end");
        let prev_site = if k > 0 { events[k - 1].ev.site } else { "start" };
        let opk = events
            .get(k)
            .and_then(|l| ops.get(l.step))
            .map(|o| o.kind())
            .unwrap_or("drop");
        rep.distinct_hash(tag(&format!("{backend}|{prev_site}|{site}|{opk}")));
        rep.count(&format!("crash_in_{opk}"));
        progress(&format!("{opk} backend={backend} crash_before_call={k} site={site}"));
        if let Err((kind, detail)) = compare_recovered(dir, &img, expect, max_index, k % 4 == 3) {
            let sig = format!("C01:{kind}:{opk}");
            if fired.insert(sig.clone()) {
                rep.violation(
                    &sig,
                    &format!(
                        "backend {backend}: crash before call {k} ({}) during {opk}: {detail}",
                        events.get(k).map(|l| crash::describe(&l.ev)).unwrap_or("end".into())
                    ),
                    replay(k as i64, -1),
                );
            }
        }
        if let Some(l) = events.get(k) {
            if tears && l.ev.file == FsFile::Wal {
                if let FsOp::Append { bytes } = &l.ev.op {
                    for n in 1..bytes.len() {
                        let mut t = img.clone();
                        crash::apply_torn(&mut t, &l.ev, n);
                        rep.eval();
                        rep.count("torn_wal_writes");
                        if let Err((kind, detail)) =
                            compare_recovered(dir, &t, expect, max_index, false)
                        {
                            let sig = format!("C01:torn:{kind}:{opk}");
                            if fired.insert(sig.clone()) {
                                rep.violation(
                                    &sig,
                                    &format!("backend {backend}: call {k} torn after {n} bytes during {opk}: {detail}"),
                                    replay(k as i64, n as i64),
                                );
                            }
                        }
                    }
                }
            }
            crash::apply(&mut img, &l.ev);
        }
    }
    let _ = std::fs::remove_file(&path);
    let _ = std::fs::remove_file(wal_name(&path));
}

pub struct C01;

impl vcore::workers::CaseEngine for C01 {
    fn property(&self) -> &'static str {
        "C01"
    }
    fn rule(&self) -> String {
        "random programs of storage operations in nested transactions on StorageHandle<FileStorage> and \
        <FileStorageMemoryMapped>; for every prefix of the recorded mutating file-system calls (and, thorough, every byte-tear of \
        every log append) both files are materialised and reopened; evaluations = recoveries checked; distinct = distinct \
        (backend, previous call site, interrupted call site, operation in flight) crash-point classes"
            .into()
    }
    fn cases(&self, args: &Args) -> usize {
        args.u64("n", if args.thorough() { 3000 } else { 200 }) as usize
    }
    fn run_case(&self, args: &Args, i: usize, rep: &mut Report, progress: &dyn Fn(&str)) {
        let seed = args.u64("seed", 1);
        let thorough = args.thorough();
        let scratch = args.str("scratch", "/verif/scratch/c01");
        let _ = std::fs::create_dir_all(&scratch);
        let mut rng = Rng::new(derive(seed, &[tag("C01"), i as u64]));
        let len = 3 + rng.usize(if thorough { 60 } else { 38 });
        let ops = gen_program(&mut rng, len);
        let dir = vcore::scratch_dir(&scratch, &format!("p{i}"));
        for backend in ["file", "mapped"] {
            rep.count("programs");
            run_c01_program(backend, &dir, &ops, thorough && i % 4 == 0, rep, progress);
        }
        let _ = std::fs::remove_dir_all(&dir);
        if i < 2 {
            rep.sample(|| json!({"program": i, "ops": ops_json(&ops[..ops.len().min(30)])}));
        }
    }
    fn finish(&self, args: &Args, rep: &mut Report) {
        rep.require("shadow_selfcheck_ok", 1);
        rep.require("programs_rewriting_a_region_in_one_transaction", 1);
        rep.require("programs_dropped_with_open_transaction", 1);
        rep.require("crash_in_optimize", 1);
        rep.require("crash_in_drop", 1);
        rep.assumptions.push("crash granularity = one mutating file-system call (plus byte tears of log appends in the thorough tier); the OS is assumed not to reorder completed calls".into());
        let _ = std::fs::remove_dir_all(args.str("scratch", "/verif/scratch/c01"));
    }
}

pub fn replay(v: &Value, rep: &mut Report) {
    let ops: Vec<Op> = v["ops"]
        .as_array()
        .map(|a| a.iter().map(Op::from_json).collect())
        .unwrap_or_default();
    let backend = v["backend"].as_str().unwrap_or("file").to_string();
    let dir = vcore::scratch_dir("/verif/scratch", "replay");
    match v["engine"].as_str().unwrap_or("") {
        "c04" => {
            run_c04_one(&backend, &format!("{dir}/r.agdb"), &ops, rep);
        }
        _ => {
            run_c01_program(&backend, &dir, &ops, v["tear_bytes"].as_i64().unwrap_or(-1) >= 0, rep, &|_| {});
        }
    }
    let _ = std::fs::remove_dir_all(&dir);
}
