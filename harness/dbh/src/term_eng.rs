//! C19: every query terminates after any history. Non-termination is decided on a
//! logical step count: the database runs on `MonStorage`, which counts storage calls
//! per query and starts failing them above the budget, which unwinds any
//! storage-driven loop. Wall-clock plays no part in the verdict.

use agdb::DbImpl;
use agdb::DbValue;
use agdb::FileStorage;
use agdb::MemoryStorage;
use agdb::StorageData;
use serde_json::json;
use std::sync::Arc;
use std::sync::atomic::Ordering;
use vcore::Args;
use vcore::genq::Gen;
use vcore::genq::GenCfg;
use vcore::model::Ids;
use vcore::model::Model;
use vcore::model::MutQ;
use vcore::model::QId;
use vcore::model::Vals;
use vcore::panicmon;
use vcore::report::Report;
use vcore::rng::Rng;
use vcore::rng::derive;
use vcore::rng::tag;
use vcore::workers::CaseEngine;
use vcore::wrap::Ctl;
use vcore::wrap::MonStorage;

pub struct C19;

const BUDGET: u64 = 3_000_000;

struct Run<'a, S: StorageData> {
    db: DbImpl<MonStorage<S>>,
    ctl: Arc<Ctl>,
    rep: &'a mut Report,
    trace: Vec<String>,
    nodes: Vec<i64>,
}

impl<S: StorageData> Run<'_, S> {
    /// Ok(result ids) or Err(()) when the step budget was exceeded
    fn exec(&mut self, q: &MutQ) -> Result<Vec<i64>, String> {
        self.ctl.reset_counts();
        self.ctl.budget.store(BUDGET, Ordering::Relaxed);
        self.trace.push(format!("{q:?}"));
        if self.trace.len() > 40 {
            self.trace.remove(0);
        }
        let r = q.to_agdb().exec(&mut self.db);
        let steps = self.ctl.steps();
        self.rep.eval();
        self.rep.max("max_storage_steps_in_one_query", steps as i64);
        if self.ctl.budget_hit.load(Ordering::Relaxed) > 0 {
            return Err(format!(
                "query {} exceeded the step budget of {BUDGET} storage calls ({} calls counted)",
                q.kind(),
                steps
            ));
        }
        Ok(r.map(|r| r.elements.iter().map(|e| e.id.0).collect()).unwrap_or_default())
    }
    fn rolled_back(&mut self, qs: &[MutQ]) -> Result<(), String> {
        self.ctl.reset_counts();
        self.ctl.budget.store(BUDGET * 2, Ordering::Relaxed);
        for q in qs {
            self.trace.push(format!("tx(rolled back) {q:?}"));
        }
        let _ = self.db.transaction_mut(|t| -> Result<(), agdb::DbError> {
            for q in qs {
                let _ = q.to_agdb().exec_tx(t);
            }
            Err(agdb::DbError::db(agdb::DbErrorType::NotAllowed, "verif: roll back"))
        });
        self.rep.eval();
        self.rep.count("rolled_back_transactions");
        self.rep.max("max_storage_steps_in_one_query", self.ctl.steps() as i64);
        if self.ctl.budget_hit.load(Ordering::Relaxed) > 0 {
            return Err(format!(
                "rolled back transaction of {} queries exceeded the step budget ({} calls counted)",
                qs.len(),
                self.ctl.steps()
            ));
        }
        Ok(())
    }
}

fn churn<S: StorageData>(run: &mut Run<S>, rng: &mut Rng, rounds: usize) -> Result<(), String> {
    // a few nodes to hang things on
    let ids = run.exec(&MutQ::InsertNodes {
        count: 4,
        aliases: vec![],
        values: Vals::None,
    })?;
    run.nodes = ids;
    let mut alias_n = 0u64;
    let mut val_n = 0i64;
    let mut live_aliases: Vec<String> = vec![];
    run.exec(&MutQ::InsertIndex(DbValue::from("ik")))?;
    for _ in 0..rounds {
        let n = 1 + rng.usize(40);
        match rng.below(7) {
            0 => {
                // alias churn on existing nodes: every insert replaces the node's alias
                for _ in 0..n {
                    alias_n += 1;
                    let node = run.nodes[rng.usize(run.nodes.len())];
                    let a = format!("al{alias_n}");
                    run.exec(&MutQ::InsertAliases {
                        ids: vec![QId::Id(node)],
                        aliases: vec![a.clone()],
                    })?;
                    live_aliases.push(a);
                    run.rep.count("alias_cycles");
                }
            }
            1 => {
                // remove a wave of aliases (many already replaced: no-ops are fine)
                let take = live_aliases.len().min(n);
                let list: Vec<String> = live_aliases.drain(0..take).collect();
                if !list.is_empty() {
                    run.exec(&MutQ::RemoveAliases(list))?;
                }
            }
            2 => {
                // indexed value churn: distinct values replaced over and over
                for _ in 0..n {
                    val_n += 1;
                    let node = run.nodes[rng.usize(run.nodes.len())];
                    run.exec(&MutQ::InsertValues {
                        ids: Ids::List(vec![QId::Id(node)]),
                        values: Vals::Single(vec![(DbValue::from("ik"), DbValue::from(val_n))]),
                    })?;
                    run.rep.count("indexed_value_cycles");
                }
            }
            3 => {
                // node churn with aliases: insert then remove
                for _ in 0..n {
                    alias_n += 1;
                    let a = format!("nd{alias_n}");
                    let ids = run.exec(&MutQ::InsertNodes {
                        count: 0,
                        aliases: vec![a.clone()],
                        values: Vals::Single(vec![(DbValue::from("ik"), DbValue::from(alias_n as i64))]),
                    })?;
                    if rng.chance(3, 4) {
                        run.exec(&MutQ::Remove(Ids::List(ids.into_iter().map(QId::Id).collect())))?;
                    } else {
                        run.nodes.extend(ids);
                    }
                    run.rep.count("node_cycles");
                }
            }
            4 => {
                // key churn on one element
                let node = run.nodes[rng.usize(run.nodes.len())];
                let keys: Vec<DbValue> = (0..n as i64).map(|i| DbValue::from(5000 + val_n + i)).collect();
                val_n += n as i64;
                run.exec(&MutQ::InsertValues {
                    ids: Ids::List(vec![QId::Id(node)]),
                    values: Vals::Single(keys.iter().map(|k| (k.clone(), DbValue::from(1_i64))).collect()),
                })?;
                run.exec(&MutQ::RemoveValues {
                    ids: Ids::List(vec![QId::Id(node)]),
                    keys,
                })?;
                run.rep.count("key_cycles");
            }
            5 => {
                // index create/remove churn over distinct keys
                for _ in 0..n.min(10) {
                    val_n += 1;
                    let k = DbValue::from(format!("ix{val_n}"));
                    run.exec(&MutQ::InsertIndex(k.clone()))?;
                    if rng.chance(3, 4) {
                        run.exec(&MutQ::RemoveIndex(k))?;
                    }
                    run.rep.count("index_cycles");
                }
            }
            _ => {
                // a rolled back transaction of alias / value work
                let mut qs = vec![];
                for _ in 0..1 + rng.usize(6) {
                    alias_n += 1;
                    let node = run.nodes[rng.usize(run.nodes.len())];
                    qs.push(MutQ::InsertAliases {
                        ids: vec![QId::Id(node)],
                        aliases: vec![format!("tx{alias_n}")],
                    });
                    val_n += 1;
                    qs.push(MutQ::InsertValues {
                        ids: Ids::List(vec![QId::Id(node)]),
                        values: Vals::Single(vec![(DbValue::from("ik"), DbValue::from(val_n))]),
                    });
                }
                run.rolled_back(&qs)?;
            }
        }
        if run.nodes.len() > 40 {
            let drop: Vec<QId> = run.nodes.drain(4..).map(QId::Id).collect();
            run.exec(&MutQ::Remove(Ids::List(drop)))?;
        }
    }
    Ok(())
}

fn generic<S: StorageData>(run: &mut Run<S>, seed: u64, len: usize) -> Result<(), String> {
    // the generic hostile history too, with the model kept in step where it agrees
    let mut model = Model::default();
    let mut g = Gen::new(seed, GenCfg::default());
    for _ in 0..len {
        let q = g.next(&model);
        run.ctl.reset_counts();
        run.ctl.budget.store(BUDGET, Ordering::Relaxed);
        run.trace.push(format!("{q:?}"));
        if run.trace.len() > 40 {
            run.trace.remove(0);
        }
        let r = q.to_agdb().exec(&mut run.db);
        run.rep.eval();
        run.rep.max("max_storage_steps_in_one_query", run.ctl.steps() as i64);
        if run.ctl.budget_hit.load(Ordering::Relaxed) > 0 {
            return Err(format!("query {} exceeded the step budget", q.kind()));
        }
        if let Ok(r) = &r {
            if !matches!(model.apply(&q, Some(r)), Ok(Ok(()))) {
                return Ok(()); // semantic disagreement: other properties' business
            }
        }
    }
    Ok(())
}

fn one<S: StorageData>(data: S, seed: u64, rounds: usize, rep: &mut Report) -> Option<(String, Vec<String>)> {
    let ctl = Ctl::new();
    let db = match DbImpl::with_data(MonStorage::wrap(data, ctl.clone())) {
        Ok(db) => db,
        Err(e) => return Some((format!("open failed: {e:?}"), vec![])),
    };
    let mut run = Run {
        db,
        ctl,
        rep,
        trace: vec![],
        nodes: vec![],
    };
    let mut rng = Rng::new(seed);
    let r = if seed % 4 == 3 {
        generic(&mut run, seed, rounds * 6)
    } else {
        churn(&mut run, &mut rng, rounds)
    };
    run.ctl.budget.store(0, Ordering::Relaxed);
    match r {
        Ok(()) => None,
        Err(e) => Some((e, run.trace.clone())),
    }
}

impl CaseEngine for C19 {
    fn property(&self) -> &'static str {
        "C19"
    }
    fn rule(&self) -> String {
        format!(
            "histories of insert/remove cycles over many distinct hashed keys (aliases on existing and new nodes, indexed values, \
             property keys, index keys), rolled-back transactions and generic hostile histories on DbImpl<MonStorage<MemoryStorage>> and \
             <MonStorage<FileStorage>>; verdict = no query exceeds {BUDGET} storage calls (logical step budget, load independent); \
             evaluations = queries executed; distinct = distinct (phase mix) signatures"
        )
    }
    fn cases(&self, args: &Args) -> usize {
        args.u64("n", if args.thorough() { 3000 } else { 240 }) as usize
    }
    fn case_timeout_s(&self, _args: &Args) -> u64 {
        180
    }
    fn run_case(&self, args: &Args, case: usize, rep: &mut Report, _p: &dyn Fn(&str)) {
        let seed = derive(args.u64("seed", 1), &[tag("C19"), case as u64]);
        let rounds = args.u64("rounds", if args.thorough() { 60 } else { 30 }) as usize;
        let scratch = args.str("scratch", "/verif/scratch/c19");
        let _ = std::fs::create_dir_all(&scratch);
        let file = case % 3 == 2;
        let path = format!("{scratch}/t{case}.agdb");
        crate::hist_eng::cleanup(&path);
        let r = panicmon::catch(|| {
            if file {
                match FileStorage::new(&path) {
                    Ok(s) => one(s, seed, rounds, rep),
                    Err(e) => Some((format!("{e:?}"), vec![])),
                }
            } else {
                one(MemoryStorage::new("c19").unwrap(), seed, rounds, rep)
            }
        });
        crate::hist_eng::cleanup(&path);
        rep.distinct_hash(seed % 1024);
        let replay = |trace: Vec<String>| json!({"engine": "c19", "case": case, "seed": args.u64("seed", 1), "tier": args.str("tier", "quick"),
            "backend": if file {"file"} else {"memory"}, "last_queries_oldest_first": trace.into_iter().rev().take(8).rev().collect::<Vec<_>>()});
        match r {
            Ok(None) => {}
            Ok(Some((e, trace))) => {
                let kind = e.split_whitespace().nth(1).unwrap_or("?").to_string();
                rep.violation(&format!("C19:step_budget_exceeded:{kind}"), &e, replay(trace));
            }
            Err(p) => rep.violation(
                &format!("C19:{}", p.signature()),
                &format!("panic: {} at {}:{}", p.message, p.file, p.line),
                replay(vec![]),
            ),
        }
        if case < 2 {
            rep.sample(|| json!({"case": case, "rounds": rounds, "backend": if file {"file"} else {"memory"}}));
        }
    }
    fn finish(&self, args: &Args, rep: &mut Report) {
        for k in ["alias_cycles", "indexed_value_cycles", "node_cycles", "key_cycles", "index_cycles", "rolled_back_transactions"] {
            rep.require(k, 100);
        }
        rep.extra.insert("step_budget_per_query".into(), json!(BUDGET));
        let _ = std::fs::remove_dir_all(args.str("scratch", "/verif/scratch/c19"));
    }
}
