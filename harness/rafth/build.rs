//! Copies the *real* /repo/agdb_server/src/raft.rs into OUT_DIR with exactly one
//! textual substitution (the clock) and an appended probe `impl` (same module, so
//! it can read the private fields). If the substitution point is missing the build
//! fails: the check then reports "inconclusive", never a pass.
use std::fs;
use std::path::Path;

fn main() {
    let src = "/repo/agdb_server/src/raft.rs";
    println!("cargo:rerun-if-changed={src}");
    println!("cargo:rerun-if-changed=src/probe.rs.in");
    let text = fs::read_to_string(src).expect("read raft.rs");
    let needle = "use std::time::Instant;";
    assert_eq!(text.matches(needle).count(), 1, "raft.rs: expected exactly one `{needle}`");
    // the unit tests of raft.rs are not part of the simulator
    let body = match text.find("#[cfg(test)]") {
        Some(i) => &text[..i],
        None => &text[..],
    };
    let mut out = body.replace(needle, "use crate::vclock::Instant;");
    out.push_str(&fs::read_to_string("src/probe.rs.in").expect("probe"));
    let dst = Path::new(&std::env::var("OUT_DIR").unwrap()).join("raft_sim.rs");
    fs::write(dst, out).unwrap();
}
