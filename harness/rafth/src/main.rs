//! rafth — simulator driving the *real* agdb_server/src/raft.rs (copied at build
//! time with the clock substituted) under a virtual clock and an adversarial or
//! transport-faithful network. Engines: c27, c28, c29 (safety monitors after every
//! action) and c30 (bounded progress on fault-free schedules).

mod server_error {
    #[derive(Debug)]
    pub struct ServerError {
        pub description: String,
    }
    pub type ServerResult<T = ()> = Result<T, ServerError>;
}

mod vclock {
    use std::cell::Cell;
    use std::time::Duration;
    thread_local! {
        pub static NOW_MS: Cell<u64> = const { Cell::new(1_000_000) };
    }
    #[derive(Debug, Clone, Copy)]
    pub struct Instant(u64);
    impl Instant {
        pub fn now() -> Self {
            Instant(NOW_MS.with(|n| n.get()))
        }
        pub fn elapsed(&self) -> Duration {
            Duration::from_millis(NOW_MS.with(|n| n.get()).saturating_sub(self.0))
        }
    }
    pub fn advance(ms: u64) {
        NOW_MS.with(|n| n.set(n.get() + ms));
    }
    pub fn now() -> u64 {
        NOW_MS.with(|n| n.get())
    }
    pub fn reset() {
        NOW_MS.with(|n| n.set(1_000_000));
    }
}

#[allow(dead_code, clippy::all)]
mod raft_sim {
    include!(concat!(env!("OUT_DIR"), "/raft_sim.rs"));
}

use raft_sim::Cluster;
use raft_sim::ClusterSettings;
use raft_sim::Log;
use raft_sim::Probe;
use raft_sim::ProbeState;
use raft_sim::Request;
use raft_sim::Response;
use raft_sim::Storage;
use serde_json::json;
use server_error::ServerResult;
use std::collections::BTreeMap;
use std::collections::BTreeSet;
use std::future::Future;
use std::pin::pin;
use std::task::Context;
use std::task::Poll;
use std::task::Waker;
use std::time::Duration;
use vcore::Args;
use vcore::report::Report;
use vcore::rng::Rng;
use vcore::rng::derive;
use vcore::rng::tag;
use vcore::workers::CaseEngine;

#[global_allocator]
static ALLOC: vcore::alloccap::CapAlloc = vcore::alloccap::CapAlloc;

fn block_on<F: Future>(f: F) -> F::Output {
    let mut f = pin!(f);
    let mut cx = Context::from_waker(Waker::noop());
    for _ in 0..1000 {
        if let Poll::Ready(v) = f.as_mut().poll(&mut cx) {
            return v;
        }
    }
    panic!("simulated storage future did not complete");
}

// ---------------------------------------------------------------------------
// in-memory mirror of the server's ClusterStorage / ClusterLog
// ---------------------------------------------------------------------------

pub use vcore::simlog::SimLogStore;

/// the shared in-memory mirror (vcore::simlog) behind the simulator's `raft::Storage`
#[derive(Default, Debug, Clone)]
pub struct SimStorage(pub SimLogStore);

impl std::ops::Deref for SimStorage {
    type Target = SimLogStore;
    fn deref(&self) -> &SimLogStore {
        &self.0
    }
}

impl Storage<u64, ()> for SimStorage {
    async fn append(&mut self, log: Log<u64>, _n: Option<()>) -> ServerResult<()> {
        self.0.append(log.index, log.term, log.data);
        Ok(())
    }
    async fn commit(&mut self, index: u64) -> ServerResult<()> {
        self.0.commit(index);
        Ok(())
    }
    fn log_index(&self) -> u64 {
        self.0.index
    }
    fn log_term(&self) -> u64 {
        self.0.term
    }
    fn log_commit(&self) -> u64 {
        self.0.commit
    }
    async fn logs(&self, from_index: u64) -> ServerResult<Vec<Log<u64>>> {
        Ok(self
            .0
            .logs_since(from_index)
            .iter()
            .map(|l| Log {
                db_id: None,
                index: l.index,
                term: l.term,
                data: l.data,
            })
            .collect())
    }
}

type Node = Cluster<u64, (), SimStorage>;

pub const ELECTION_FACTOR: u64 = 100;
pub const HEARTBEAT: u64 = 200;
pub const TERM_TIMEOUT: u64 = 1000;

fn new_node(i: u64, n: u64) -> Node {
    Cluster::new(
        SimStorage::default(),
        ClusterSettings {
            index: i,
            size: n,
            hash: 42,
            election_factor_ms: ELECTION_FACTOR,
            heartbeat_timeout: Duration::from_millis(HEARTBEAT),
            term_timeout: Duration::from_millis(TERM_TIMEOUT),
        },
    )
}

enum Msg {
    Req(Request<u64>),
    Resp { req: Request<u64>, resp: Response },
}

impl Msg {
    fn from(&self) -> u64 {
        match self {
            Msg::Req(r) => r.index,
            Msg::Resp { req, .. } => req.target,
        }
    }
    fn to(&self) -> u64 {
        match self {
            Msg::Req(r) => r.target,
            Msg::Resp { req, .. } => req.index,
        }
    }
    fn describe(&self) -> String {
        match self {
            Msg::Req(r) => r.describe(),
            Msg::Resp { req, resp } => format!("response[{}] to {}", resp.kind(), req.describe()),
        }
    }
    fn dup(&self) -> Msg {
        match self {
            Msg::Req(r) => Msg::Req(r.dup()),
            Msg::Resp { req, resp } => Msg::Resp {
                req: req.dup(),
                resp: resp.dup(),
            },
        }
    }
}

#[derive(Clone, Copy, PartialEq, Debug)]
pub enum Net {
    /// what cluster.rs can produce: one outstanding request per link, FIFO per link, loss, no duplication
    Faithful,
    /// arbitrary reordering, loss and duplication
    Adversarial,
}

pub struct Sim {
    pub nodes: Vec<Node>,
    msgs: Vec<Msg>,
    /// faithful model: link (from,to) has a request outstanding (awaiting its response)
    busy: BTreeSet<(u64, u64)>,
    /// blocked directed links
    blocked: BTreeSet<(u64, u64)>,
    net: Net,
    next_data: u64,
    pub trace: Vec<String>,
    // ---- monitor state ----
    leaders: BTreeMap<u64, BTreeSet<u64>>,
    /// who granted a vote (voter, candidate, term, voter probe before)
    votes: Vec<(u64, u64, u64, String)>,
    first_commit: BTreeMap<u64, (u64, u64, u64)>,
    node_committed: Vec<BTreeMap<u64, (u64, u64)>>,
    last_commit_index: Vec<u64>,
    last_storage_commit: Vec<u64>,
    /// index -> (term, data, leader, nodes holding the same entry when it was committed, nodes holding any entry at that index then)
    leader_committed: BTreeMap<u64, (u64, u64, u64, usize, usize)>,
    was_leader: Vec<bool>,
    pub violations: Vec<(String, String)>,
    pub states: BTreeSet<u64>,
    /// leader commits whose index fewer than a quorum of nodes had on the leader's own record
    pub sub_quorum_commits: u64,
    /// votes granted to a candidate whose log ended at a lower term or a lower index than the voter's
    pub votes_for_stale_logs: u64,
    pub leader_commits: u64,
    /// per target: (first index of the last append batch delivered, the target's commit index before it, response kind)
    pub last_append: BTreeMap<u64, (u64, u64, &'static str)>,
}

impl Sim {
    pub fn new(n: u64, net: Net) -> Self {
        vclock::reset();
        Sim {
            nodes: (0..n).map(|i| new_node(i, n)).collect(),
            msgs: vec![],
            busy: BTreeSet::new(),
            blocked: BTreeSet::new(),
            net,
            next_data: 1,
            trace: vec![],
            leaders: BTreeMap::new(),
            votes: vec![],
            first_commit: BTreeMap::new(),
            node_committed: vec![BTreeMap::new(); n as usize],
            last_commit_index: vec![0; n as usize],
            last_storage_commit: vec![0; n as usize],
            leader_committed: BTreeMap::new(),
            was_leader: vec![false; n as usize],
            violations: vec![],
            states: BTreeSet::new(),
            last_append: BTreeMap::new(),
            sub_quorum_commits: 0,
            votes_for_stale_logs: 0,
            leader_commits: 0,
        }
    }
    fn n(&self) -> usize {
        self.nodes.len()
    }
    pub fn probes(&self) -> Vec<Probe> {
        self.nodes.iter().map(|n| n.probe()).collect()
    }
    fn push_requests(&mut self, reqs: Vec<Request<u64>>) {
        for r in reqs {
            self.msgs.push(Msg::Req(r));
        }
    }
    pub fn tick(&mut self, node: usize, delta: u64) {
        vclock::advance(delta);
        self.trace.push(format!("tick node {node} +{delta}ms"));
        if let Some(reqs) = self.nodes[node].process() {
            self.push_requests(reqs);
        }
        self.monitor();
    }
    pub fn client_append(&mut self, node: usize) -> Option<u64> {
        if self.nodes[node].probe().state != ProbeState::Leader {
            return None;
        }
        let data = self.next_data;
        self.next_data += 1;
        self.trace.push(format!("client append at leader {node} data {data}"));
        let before = self.nodes[node].probe().log_commit;
        match block_on(self.nodes[node].append(data, None)) {
            Ok(reqs) => self.push_requests(reqs),
            Err(e) => self.trace.push(format!("append failed: {}", e.description)),
        }
        let _ = before;
        self.monitor();
        Some(data)
    }
    /// indexes of messages that may be delivered now
    pub fn deliverable(&self) -> Vec<usize> {
        let mut v = vec![];
        let mut seen_links: BTreeSet<(u64, u64)> = BTreeSet::new();
        for (i, m) in self.msgs.iter().enumerate() {
            if self.blocked.contains(&(m.from(), m.to())) {
                continue;
            }
            if self.net == Net::Faithful {
                if let Msg::Req(r) = m {
                    let link = (r.index, r.target);
                    // FIFO per link and one outstanding request per link
                    if self.busy.contains(&link) || !seen_links.insert(link) {
                        continue;
                    }
                }
            }
            v.push(i);
        }
        v
    }
    pub fn deliver(&mut self, i: usize) {
        let m = self.msgs.remove(i);
        self.trace.push(format!("deliver {}", m.describe()));
        match m {
            Msg::Req(req) => {
                let t = req.target as usize;
                let before = self.nodes[t].probe();
                let commit_before = self.nodes[t].storage.commit;
                let resp = block_on(self.nodes[t].request(&req));
                if let Some(first) = req.append_first_index() {
                    self.last_append.insert(req.target, (first, commit_before, resp.kind()));
                }
                if req.kind() == "vote" && resp.is_ok() {
                    self.votes.push((req.target, req.index, req.term(), format!("{:?} term {}", before.state, before.term)));
                    let (cand_term, cand_index) = req.log_position();
                    if before.log_term > cand_term || before.log_index > cand_index {
                        self.votes_for_stale_logs += 1;
                    }
                }
                self.trace.push(format!("   -> {}", resp.kind()));
                if self.net == Net::Faithful {
                    self.busy.insert((req.index, req.target));
                }
                self.msgs.push(Msg::Resp { req, resp });
            }
            Msg::Resp { req, resp } => {
                let s = req.index as usize;
                if self.net == Net::Faithful {
                    self.busy.remove(&(req.index, req.target));
                }
                match block_on(self.nodes[s].response(&req, &resp)) {
                    Ok(Some(reqs)) => self.push_requests(reqs),
                    Ok(None) => {}
                    Err(e) => self.trace.push(format!("   response handling failed: {}", e.description)),
                }
            }
        }
        self.monitor();
    }
    pub fn drop_msg(&mut self, i: usize) {
        let m = self.msgs.remove(i);
        self.trace.push(format!("drop {}", m.describe()));
        if self.net == Net::Faithful {
            // a lost request or response frees the link (the sender's HTTP call failed)
            match &m {
                Msg::Req(_) => {}
                Msg::Resp { req, .. } => {
                    self.busy.remove(&(req.index, req.target));
                }
            }
        }
    }
    pub fn duplicate(&mut self, i: usize) {
        let d = self.msgs[i].dup();
        self.trace.push(format!("duplicate {}", d.describe()));
        self.msgs.push(d);
    }
    pub fn partition(&mut self, isolated: u64) {
        self.trace.push(format!("partition: isolate node {isolated}"));
        for j in 0..self.n() as u64 {
            if j != isolated {
                self.blocked.insert((isolated, j));
                self.blocked.insert((j, isolated));
            }
        }
    }
    pub fn heal(&mut self) {
        if !self.blocked.is_empty() {
            self.trace.push("heal".into());
            self.blocked.clear();
        }
    }
    pub fn in_flight(&self) -> usize {
        self.msgs.len()
    }

    fn state_hash(&self) -> u64 {
        let mut h = 0u64;
        for p in self.probes() {
            h = vcore::rng::mix(h ^ tag(&format!("{p:?}")));
        }
        let mut ms: Vec<String> = self.msgs.iter().map(|m| m.describe()).collect();
        ms.sort();
        vcore::rng::mix(h ^ tag(&ms.join("|")))
    }

    /// the monitors of C27, C28, C29; runs after every action
    fn monitor(&mut self) {
        let probes = self.probes();
        self.states.insert(self.state_hash());
        // C27
        for (i, p) in probes.iter().enumerate() {
            if p.state == ProbeState::Leader {
                let set = self.leaders.entry(p.term).or_default();
                if set.insert(i as u64) && set.len() > 1 {
                    let who: Vec<u64> = set.iter().copied().collect();
                    let term = p.term;
                    // causal signature: did one voter grant its vote twice in this term?
                    let mut granted: BTreeMap<u64, Vec<(u64, String)>> = BTreeMap::new();
                    for (voter, cand, t, st) in &self.votes {
                        if *t == term {
                            granted.entry(*voter).or_default().push((*cand, st.clone()));
                        }
                    }
                    let double: Vec<(u64, Vec<(u64, String)>)> = granted
                        .into_iter()
                        .filter(|(_, v)| v.iter().map(|x| x.0).collect::<BTreeSet<_>>().len() > 1)
                        .collect();
                    let sig = if let Some((_, grants)) = double.first() {
                        let second_state = grants.last().map(|g| g.1.split(' ').next().unwrap_or("").to_string()).unwrap_or_default();
                        let second_state = second_state.split('(').next().unwrap_or("").to_string();
                        format!("two_leaders_in_one_term:voter_granted_two_votes_in_the_term:second_vote_from_state_{second_state}")
                    } else if self.net == Net::Adversarial {
                        "two_leaders_in_one_term:without_double_vote:adversarial_network".to_string()
                    } else {
                        "two_leaders_in_one_term:without_double_vote".to_string()
                    };
                    self.violations.push((
                        format!("C27:{sig}"),
                        format!("nodes {who:?} are both leader in term {term}; votes granted in that term: {double:?}"),
                    ));
                }
            }
        }
        // observation for the causal signature of C28: a leader that advanced its commit index to i
        // must have had a quorum of nodes with a log index >= i on its own record (the code's own rule)
        for i in 0..self.n() {
            if probes[i].state == ProbeState::Leader && self.was_leader[i] && probes[i].log_commit > self.last_commit_index[i] {
                self.leader_commits += 1;
                let quorum = self.n() / 2 + 1;
                let acks = self.nodes[i].probe_table().iter().filter(|x| **x >= probes[i].log_commit).count();
                if acks < quorum {
                    self.sub_quorum_commits += 1;
                }
            }
        }
        // C28
        for i in 0..self.n() {
            let st = &self.nodes[i].storage;
            for l in st.logs.iter().filter(|l| l.committed) {
                let entry = (l.term, l.data);
                match self.node_committed[i].get(&l.index) {
                    None => {
                        self.node_committed[i].insert(l.index, entry);
                        match self.first_commit.get(&l.index) {
                            None => {
                                self.first_commit.insert(l.index, (l.term, l.data, i as u64));
                            }
                            Some((t, d, who)) if (*t, *d) != entry => {
                                self.violations.push((
                                    format!(
                                        "C28:two_nodes_committed_different_entries_at_one_index:{}{}",
                                        if self.net == Net::Adversarial { "adversarial_network" } else { "transport_faithful_network" },
                                        if self.sub_quorum_commits > 0 {
                                            ":after_a_leader_committed_with_fewer_than_a_quorum_of_replicas_on_its_record"
                                        } else if self.votes_for_stale_logs > 0 {
                                            ":after_a_vote_for_a_candidate_whose_log_was_behind_the_voters"
                                        } else if self.violations.iter().any(|v| v.0.starts_with("C29:")) {
                                            // the run had already elected a leader without an entry an earlier leader had committed
                                            ":after_a_leader_was_elected_without_a_leader_committed_entry"
                                        } else if self.violations.iter().any(|v| v.0.starts_with("C27:")) {
                                            ":after_two_leaders_in_one_term"
                                        } else {
                                            ""
                                        }
                                    ),
                                    format!(
                                        "index {}: node {who} committed (term {t}, data {d}), node {i} committed (term {}, data {})",
                                        l.index, l.term, l.data
                                    ),
                                ));
                            }
                            _ => {}
                        }
                        if probes[i].state == ProbeState::Leader {
                            if !self.leader_committed.contains_key(&l.index) {
                                let same = self.nodes.iter().filter(|nd| nd.storage.logs.iter().any(|e| e.index == l.index && e.term == l.term && e.data == l.data)).count();
                                let any = self.nodes.iter().filter(|nd| nd.storage.logs.iter().any(|e| e.index == l.index)).count();
                                self.leader_committed.insert(l.index, (l.term, l.data, i as u64, same, any));
                            }
                        }
                    }
                    Some(e) if *e != entry => {
                        self.violations.push((
                            "C28:committed_entry_replaced_on_a_node".to_string(),
                            format!("node {i} index {}: committed {e:?} and later also committed {entry:?}", l.index),
                        ));
                    }
                    _ => {}
                }
            }
            // nothing committed disappears
            for (idx, e) in &self.node_committed[i] {
                if !st.logs.iter().any(|l| l.committed && l.index == *idx && (l.term, l.data) == *e) {
                    self.violations.push((
                        "C28:committed_entry_removed_from_a_node".to_string(),
                        format!("node {i} index {idx}: committed entry {e:?} is gone"),
                    ));
                }
            }
            if probes[i].log_commit < self.last_commit_index[i] {
                self.violations.push((
                    "C28:commit_index_decreased".to_string(),
                    format!("node {i}: commit index {} after {}", probes[i].log_commit, self.last_commit_index[i]),
                ));
            }
            self.last_commit_index[i] = probes[i].log_commit;
            if st.commit < self.last_storage_commit[i] {
                self.violations.push((
                    "C28:stored_commit_index_decreased".to_string(),
                    format!("node {i}: stored commit index {} after {}", st.commit, self.last_storage_commit[i]),
                ));
            }
            self.last_storage_commit[i] = st.commit;
        }
        // C29
        for i in 0..self.n() {
            let is_leader = probes[i].state == ProbeState::Leader;
            if is_leader && !self.was_leader[i] {
                let quorum = self.n() / 2 + 1;
                for (idx, (t, d, who, same, any)) in &self.leader_committed {
                    let has = self.nodes[i].storage.logs.iter().any(|l| l.index == *idx && l.term == *t && l.data == *d);
                    if !has {
                        let there: Vec<(u64, u64)> = self.nodes[i].storage.logs.iter().filter(|l| l.index == *idx).map(|l| (l.term, l.data)).collect();
                        let kind = if there.is_empty() { "missing" } else { "different_entry" };
                        self.violations.push((
                            // "two nodes can hold different entries at one index" is an open finding (KF-C28-1: no log-matching
                            // check, replicas counted by index only) and this is its consequence for new leaders; the signature
                            // carries a suffix when the run showed something the unchanged code never does
                            format!(
                                "C29:new_leader_lacks_entry_committed_by_earlier_leader:{kind}{}",
                                if self.votes_for_stale_logs > 0 {
                                    ":after_a_vote_for_a_candidate_whose_log_was_behind_the_voters"
                                } else if self.sub_quorum_commits > 0 {
                                    ":after_a_leader_committed_with_fewer_than_a_quorum_of_replicas_on_its_record"
                                } else if *any < quorum {
                                    // on the unchanged tree the replicas a leader counts always hold *some* entry at that index
                                    ":the_leader_had_committed_it_when_fewer_than_a_majority_of_nodes_held_any_entry_at_that_index"
                                } else {
                                    ""
                                }
                            ),
                            format!(
                                "node {i} became leader in term {} but index {idx} (term {t}, data {d}, committed by leader {who} when {same} nodes held that entry and {any} nodes held an entry at that index; quorum {quorum}) is {there:?} in its log",
                                probes[i].term
                            ),
                        ));
                    }
                }
            }
            self.was_leader[i] = is_leader;
        }
    }
}

// ---------------------------------------------------------------------------
// schedulers
// ---------------------------------------------------------------------------

#[derive(Clone, Copy, Debug)]
pub enum Sched {
    Uniform,
    PartitionHeavy,
    TimerHeavy,
    Sticky,
}

pub fn run_random(sim: &mut Sim, rng: &mut Rng, sched: Sched, actions: usize) {
    let n = sim.n();
    let mut favoured = rng.usize(n);
    let mut change_points: Vec<usize> = (0..3).map(|_| rng.usize(actions.max(1))).collect();
    change_points.sort();
    for step in 0..actions {
        if !sim.violations.is_empty() {
            return;
        }
        if change_points.contains(&step) {
            favoured = rng.usize(n);
        }
        let deliverable = sim.deliverable();
        let w_deliver = if deliverable.is_empty() { 0 } else { 50 };
        let (w_tick, w_jump, w_drop, w_dup, w_append, w_part, w_heal) = match sched {
            Sched::Uniform => (25, 3, 6, 4, 8, 2, 3),
            Sched::PartitionHeavy => (25, 3, 4, 2, 8, 8, 5),
            Sched::TimerHeavy => (30, 14, 5, 3, 6, 2, 3),
            Sched::Sticky => (20, 4, 5, 3, 8, 2, 3),
        };
        let w_dup = if sim.net == Net::Adversarial { w_dup } else { 0 };
        let w_drop = if sim.in_flight() == 0 { 0 } else { w_drop };
        let w_dup = if sim.in_flight() == 0 { 0 } else { w_dup };
        match rng.weighted(&[w_deliver, w_tick, w_jump, w_drop, w_dup, w_append, w_part, w_heal]) {
            0 => {
                let pick = if let Sched::Sticky = sched {
                    // prefer messages to / from the favoured node, starving the rest
                    let fav: Vec<usize> = deliverable
                        .iter()
                        .copied()
                        .filter(|i| sim.msgs[*i].to() == favoured as u64 || sim.msgs[*i].from() == favoured as u64)
                        .collect();
                    if !fav.is_empty() && rng.chance(4, 5) { fav[rng.usize(fav.len())] } else { deliverable[rng.usize(deliverable.len())] }
                } else if sim.net == Net::Adversarial && rng.chance(1, 3) {
                    // newest first: maximal reordering
                    *deliverable.last().unwrap()
                } else {
                    deliverable[rng.usize(deliverable.len())]
                };
                sim.deliver(pick);
            }
            1 => {
                let node = if let Sched::Sticky = sched { if rng.chance(3, 5) { favoured } else { rng.usize(n) } } else { rng.usize(n) };
                let d = *rng.pick(&[1u64, 10, 10, 50, ELECTION_FACTOR, HEARTBEAT + 1]);
                sim.tick(node, d);
            }
            2 => {
                // a stalled node: the clock jumps past a whole term timeout between two process() calls
                let node = rng.usize(n);
                let d = *rng.pick(&[TERM_TIMEOUT + 1, TERM_TIMEOUT / 2, 2 * TERM_TIMEOUT, HEARTBEAT * 2]);
                sim.tick(node, d);
            }
            3 => {
                let i = rng.usize(sim.in_flight());
                sim.drop_msg(i);
            }
            4 => {
                let i = rng.usize(sim.in_flight());
                sim.duplicate(i);
            }
            5 => {
                let leaders: Vec<usize> = (0..n).filter(|i| sim.nodes[*i].probe().state == ProbeState::Leader).collect();
                if !leaders.is_empty() {
                    let l = leaders[rng.usize(leaders.len())];
                    sim.client_append(l);
                }
            }
            6 => {
                let who = rng.below(n as u64);
                sim.partition(who);
            }
            _ => sim.heal(),
        }
    }
}

// ---------------------------------------------------------------------------
// engines
// ---------------------------------------------------------------------------

struct Safety {
    prop: &'static str,
}

impl CaseEngine for Safety {
    fn property(&self) -> &'static str {
        self.prop
    }
    fn rule(&self) -> String {
        format!(
            "seeded runs of <= 400 scheduler actions on 3-node (and, every 5th case, 5-node) clusters of the real raft.rs under a virtual \
             clock: tick(node, delta) incl. clock jumps beyond the term timeout, deliver / drop / duplicate of in-flight requests and \
             responses, isolate / heal, client append at a node in Leader state; two network models (transport-faithful: FIFO and one \
             outstanding request per link, loss only; adversarial: any order, loss, duplication) x four schedulers (uniform, partition \
             heavy, timer heavy, sticky priority); log storage = in-memory mirror of ClusterStorage validated against the real one by the \
             C31 harness. Monitors after every action; this check owns the {} classes. evaluations = actions executed; distinct = \
             distinct global states (all node probes + multiset of in-flight messages) hashed",
            self.prop
        )
    }
    fn cases(&self, args: &Args) -> usize {
        args.u64("n", if args.thorough() { 4000 } else { 160 }) as usize
    }
    fn run_case(&self, args: &Args, case: usize, rep: &mut Report, _p: &dyn Fn(&str)) {
        let runs = args.u64("runs", 25) as usize;
        let mut fired: BTreeSet<String> = BTreeSet::new();
        for r in 0..runs {
            let seed = derive(args.u64("seed", 1), &[tag("raft"), tag(self.prop), case as u64, r as u64]);
            let mut rng = Rng::new(seed);
            let n = if case % 5 == 4 { 5 } else { 3 };
            let net = if (case + r) % 2 == 0 { Net::Faithful } else { Net::Adversarial };
            let sched = [Sched::Uniform, Sched::PartitionHeavy, Sched::TimerHeavy, Sched::Sticky][(case / 2 + r) % 4];
            let mut sim = Sim::new(n, net);
            let actions = 150 + rng.usize(250);
            run_random(&mut sim, &mut rng, sched, actions);
            rep.evaluations += sim.trace.len() as u64;
            rep.count(&format!("runs_{net:?}_{sched:?}").to_lowercase());
            rep.count(&format!("runs_{n}_nodes"));
            for h in sim.states.iter().filter(|h| *h % 8 == 0) {
                rep.distinct_hash(*h);
            }
            rep.add("global_states_seen", sim.states.len() as i64);
            if sim.leaders.values().any(|s| !s.is_empty()) {
                rep.count("runs_with_a_leader");
            }
            if !sim.first_commit.is_empty() {
                rep.count("runs_with_commits");
            }
            if sim.leaders.len() > 1 {
                rep.count("runs_with_leader_change");
            }
            rep.add("votes_granted_to_candidates_whose_log_was_behind_the_voters", sim.votes_for_stale_logs as i64);
            rep.add("leader_commit_advances_observed", sim.leader_commits as i64);
            rep.add("leader_commit_advances_with_fewer_than_a_quorum_on_the_leaders_record", sim.sub_quorum_commits as i64);
            rep.max("max_committed_index", sim.first_commit.keys().max().copied().unwrap_or(0) as i64);
            rep.max("max_term", sim.probes().iter().map(|p| p.term).max().unwrap_or(0) as i64);
            for (sig, detail) in &sim.violations {
                if sig.starts_with(self.prop) {
                    if fired.insert(sig.clone()) {
                        let tail: Vec<&String> = sim.trace.iter().rev().take(60).collect::<Vec<_>>().into_iter().rev().collect();
                        rep.violation(
                            sig,
                            &format!("[{n} nodes, {net:?}, {sched:?}] {detail}"),
                            json!({"engine": self.prop.to_lowercase(), "case": case, "run": r, "seed": args.u64("seed", 1), "tier": args.str("tier", "quick"),
                                   "nodes": n, "network": format!("{net:?}"), "scheduler": format!("{sched:?}"), "actions": sim.trace.len(),
                                   "last_actions": tail}),
                        );
                    } else {
                        rep.violations_total += 1;
                        *rep.violations_by_signature.entry(sig.clone()).or_insert(0) += 1;
                    }
                } else {
                    rep.count(&format!("observed_for_other_property_{}", &sig[..3]));
                }
            }
            if case == 0 && r == 0 {
                rep.sample(|| json!({"nodes": n, "network": format!("{net:?}"), "scheduler": format!("{sched:?}"), "first_actions": sim.trace.iter().take(25).collect::<Vec<_>>()}));
            }
        }
    }
    fn finish(&self, _args: &Args, rep: &mut Report) {
        rep.require("runs_with_a_leader", 100);
        rep.require("runs_with_commits", 50);
        rep.require("runs_with_leader_change", 20);
        rep.extra.insert(
            "timers_ms".into(),
            json!({"election_factor": ELECTION_FACTOR, "heartbeat": HEARTBEAT, "term_timeout": TERM_TIMEOUT}),
        );
    }
}

// ---------------------------------------------------------------------------
// C30: bounded progress on fault-free schedules
// ---------------------------------------------------------------------------

struct C30;

struct Timed {
    due: u64,
    msg: Msg,
}

fn healthy_phase(sim: &mut Sim, rng: &mut Rng, until: u64, pending: &mut Vec<Timed>, max_delay: u64, mut on_step: impl FnMut(&mut Sim, &mut Rng)) {
    // every 10 virtual ms: process() on every node in random order, then deliver what is due, in random order
    while vclock::now() < until {
        vclock::advance(10);
        let mut order: Vec<usize> = (0..sim.n()).collect();
        rng.shuffle(&mut order);
        for i in order {
            sim.trace.push(format!("process node {i} at {}", vclock::now()));
            if let Some(reqs) = sim.nodes[i].process() {
                sim.push_requests(reqs);
            }
            sim.monitor();
        }
        on_step(sim, rng);
        // newly produced messages get a delivery time
        for m in sim.msgs.drain(..) {
            pending.push(Timed {
                due: vclock::now() + rng.below(max_delay + 1),
                msg: m,
            });
        }
        loop {
            let due: Vec<usize> = (0..pending.len()).filter(|i| pending[*i].due <= vclock::now()).collect();
            if due.is_empty() {
                break;
            }
            let pick = due[rng.usize(due.len())];
            let t = pending.remove(pick);
            sim.msgs.push(t.msg);
            let idx = sim.msgs.len() - 1;
            sim.deliver(idx);
            // responses and follow-ups produced by the delivery
            for m in sim.msgs.drain(..) {
                pending.push(Timed {
                    due: vclock::now() + rng.below(max_delay + 1),
                    msg: m,
                });
            }
        }
    }
}

fn stable_leader(sim: &Sim) -> Option<usize> {
    let p = sim.probes();
    let leaders: Vec<usize> = (0..p.len()).filter(|i| p[*i].state == ProbeState::Leader).collect();
    if leaders.len() != 1 {
        return None;
    }
    let l = leaders[0];
    for (i, x) in p.iter().enumerate() {
        if i != l && x.state != ProbeState::Follower(l as u64) {
            return None;
        }
    }
    Some(l)
}

impl CaseEngine for C30 {
    fn property(&self) -> &'static str {
        "C30"
    }
    fn rule(&self) -> String {
        format!(
            "liveness restated as bounded progress in virtual time: fault-free schedules (no loss, no duplication, every message delivered \
             in arbitrary order within {} virtual ms = heartbeat/4, process() on every node every 10 virtual ms in arbitrary node order) from \
             the initial state and from states reached by a faulty prefix (random isolation, loss, clock jumps) followed by heal; within \
             H = 20 x (term_timeout + N x election_factor) virtual ms there must be exactly one node in Leader state with all others \
             Follower of it, and every entry then appended at the leader must be present and committed on all nodes within H. \
             evaluations = schedules; distinct = distinct (cluster size, prefix kind, converged leader, appended entries) tuples",
            HEARTBEAT / 4
        )
    }
    fn cases(&self, args: &Args) -> usize {
        args.u64("n", if args.thorough() { 20_000 } else { 600 }) as usize
    }
    fn run_case(&self, args: &Args, case: usize, rep: &mut Report, _p: &dyn Fn(&str)) {
        let seed = derive(args.u64("seed", 1), &[tag("C30"), case as u64]);
        let mut rng = Rng::new(seed);
        let n: u64 = if case % 4 == 3 { 5 } else { 3 };
        let h = 20 * (TERM_TIMEOUT + n * ELECTION_FACTOR);
        let max_delay = HEARTBEAT / 4;
        let mut sim = Sim::new(n, Net::Adversarial);
        let prefix = case % 3;
        if prefix != 0 {
            // faulty prefix: adversarial random run, then everything in flight is lost and links heal
            let sched = if prefix == 1 { Sched::PartitionHeavy } else { Sched::TimerHeavy };
            let k = 80 + rng.usize(200);
            run_random(&mut sim, &mut rng, sched, k);
            sim.violations.clear(); // safety is C27-C29's subject
            sim.msgs.clear();
            sim.busy.clear();
            sim.heal();
            rep.count("schedules_after_faulty_prefix");
        } else {
            rep.count("schedules_from_initial_state");
        }
        rep.eval();
        let mut pending: Vec<Timed> = vec![];
        let start = vclock::now();
        // phase 1: a single stable leader within H
        let mut elected_at = None;
        while vclock::now() < start + h {
            let until = vclock::now() + 50;
            healthy_phase(&mut sim, &mut rng, until, &mut pending, max_delay, |_, _| {});
            if stable_leader(&sim).is_some() {
                elected_at = Some(vclock::now() - start);
                break;
            }
        }
        let prefix_name = ["none", "partition_heavy", "timer_heavy"][prefix];
        let ctx = |sim: &Sim| json!({"engine":"c30","case":case,"seed":args.u64("seed",1),"tier":args.str("tier","quick"),"nodes":n,
            "prefix": prefix_name, "probes": format!("{:?}", sim.probes()),
            "last_actions": sim.trace.iter().rev().take(40).collect::<Vec<_>>()});
        let Some(t_elect) = elected_at else {
            rep.violation(
                &format!("C30:no_stable_leader_within_bound:{}", ["from_initial_state", "after_partitions", "after_clock_jumps"][prefix]),
                &format!("{n} nodes: no single leader with all others following within {h} virtual ms of fault-free operation; states {:?}", sim.probes()),
                ctx(&sim),
            );
            return;
        };
        rep.max("max_virtual_ms_to_stable_leader", t_elect as i64);
        // phase 1b: what is in the stable leader's log (entries appended at some leader during the prefix) becomes
        // committed on every node within H, without any further append
        if let Some(l) = stable_leader(&sim) {
            let wanted: Vec<(u64, u64, u64)> = sim.nodes[l].storage.logs.iter().map(|e| (e.index, e.term, e.data)).collect();
            let everywhere = |sim: &Sim| {
                wanted.iter().all(|(i, t, d)| sim.nodes.iter().all(|nd| nd.storage.logs.iter().any(|e| e.index == *i && e.term == *t && e.data == *d && e.committed)))
            };
            if !wanted.is_empty() {
                rep.count("schedules_with_entries_in_the_new_leaders_log");
                let t1 = vclock::now();
                let mut ok = everywhere(&sim);
                while !ok && vclock::now() < t1 + h && stable_leader(&sim) == Some(l) {
                    let until = vclock::now() + 50;
                    healthy_phase(&mut sim, &mut rng, until, &mut pending, max_delay, |_, _| {});
                    ok = everywhere(&sim);
                }
                if ok {
                    rep.count("leaders_log_committed_everywhere_without_further_appends");
                } else if stable_leader(&sim) == Some(l) {
                    let mut lacks = false;
                    let mut other = false;
                    let mut uncommitted_only = false;
                    for (i, t, d) in &wanted {
                        for nd in &sim.nodes {
                            let same = nd.storage.logs.iter().find(|e| e.index == *i && e.term == *t && e.data == *d);
                            match same {
                                Some(e) if e.committed => {}
                                Some(_) => uncommitted_only = true,
                                None => {
                                    if nd.storage.logs.iter().any(|e| e.index == *i && e.committed) {
                                        other = true;
                                    } else {
                                        lacks = true;
                                    }
                                }
                            }
                        }
                    }
                    let leader_uncommitted = wanted.iter().any(|(i, t, d)| !sim.nodes[l].storage.logs.iter().any(|e| e.index == *i && e.term == *t && e.data == *d && e.committed));
                    // a stalled follower whose last append batch (answered with LogMismatch) started at or below its own
                    // commit index although that index is below the leader's log length: the leader re-sends entries
                    // the follower has committed
                    let leader_log_len = sim.nodes[l].storage.logs.len() as u64;
                    let resends_committed = (0..sim.n()).filter(|i| *i != l).any(|i| {
                        let behind = wanted.iter().any(|(ix, t, d)| !sim.nodes[i].storage.logs.iter().any(|e| e.index == *ix && e.term == *t && e.data == *d && e.committed));
                        behind && matches!(sim.last_append.get(&(i as u64)), Some((first, commit, "log_mismatch")) if *first <= *commit && *commit > 0 && *commit < leader_log_len)
                    });
                    let class = if other {
                        "some_node_committed_a_different_entry_at_that_index"
                    } else if resends_committed {
                        "leader_resends_entries_the_follower_has_committed"
                    } else if lacks {
                        "some_node_lacks_the_entry"
                    } else if uncommitted_only && leader_uncommitted {
                        // every node holds the entry, all messages are delivered, and not even the leader commits it
                        "entry_is_on_every_node_but_the_leader_never_commits_it"
                    } else if uncommitted_only {
                        "entry_is_on_every_node_but_a_follower_never_commits_it"
                    } else {
                        "unclassified"
                    };
                    rep.violation(
                        &format!("C30:entry_in_the_stable_leaders_log_not_committed_everywhere_within_bound:{class}"),
                        &format!("{n} nodes, leader {l}: after {h} virtual ms of fault-free operation without further appends; leader log {wanted:?}; states {:?}; logs {:?}", sim.probes(),
                            sim.nodes.iter().map(|nd| nd.storage.logs.iter().map(|e| (e.index, e.term, e.data, e.committed)).collect::<Vec<_>>()).collect::<Vec<_>>()),
                        ctx(&sim),
                    );
                    return;
                }
            }
        }
        // phase 2: entries appended at the leader are committed everywhere within H
        let k = 1 + rng.usize(4);
        let mut appended: Vec<(u64, u64)> = vec![];
        let mut to_append = k;
        let t0 = vclock::now();
        let mut done_at = None;
        while vclock::now() < t0 + h {
            let until = vclock::now() + 30;
            healthy_phase(&mut sim, &mut rng, until, &mut pending, max_delay, |sim, rng| {
                if to_append > 0 && rng.chance(1, 3) {
                    if let Some(l) = stable_leader(sim).or_else(|| (0..sim.n()).find(|i| sim.nodes[*i].probe().state == ProbeState::Leader)) {
                        if let Some(d) = sim.client_append(l) {
                            appended.push((d, vclock::now()));
                            to_append -= 1;
                        }
                    }
                }
            });
            if to_append == 0 {
                let all = appended.iter().all(|(d, _)| {
                    sim.nodes.iter().all(|nd| nd.storage.logs.iter().any(|l| l.data == *d && l.committed))
                });
                if all {
                    done_at = Some(vclock::now() - t0);
                    break;
                }
            }
        }
        rep.distinct_hash(tag(&format!("{n}|{prefix}|{:?}|{k}", stable_leader(&sim))));
        match done_at {
            Some(t) => {
                rep.max("max_virtual_ms_to_commit_everywhere", t as i64);
                rep.count("schedules_converged");
                rep.add("entries_replicated_everywhere", k as i64);
            }
            None => {
                let missing: Vec<String> = appended
                    .iter()
                    .map(|(d, _)| {
                        format!(
                            "data {d}: committed on nodes {:?}",
                            (0..sim.n()).filter(|i| sim.nodes[*i].storage.logs.iter().any(|l| l.data == *d && l.committed)).collect::<Vec<_>>()
                        )
                    })
                    .collect();
                // what the stalled followers last received: a batch that starts at or below the
                // follower's own commit index re-sends entries it has committed already
                let stalled: Vec<usize> = (0..sim.n())
                    .filter(|i| appended.iter().any(|(d, _)| !sim.nodes[*i].storage.logs.iter().any(|l| l.data == *d && l.committed)))
                    .collect();
                let leader_log_len = (0..sim.n())
                    .find(|i| sim.nodes[*i].probe().state == ProbeState::Leader)
                    .map(|l| sim.nodes[l].storage.logs.len() as u64)
                    .unwrap_or(u64::MAX);
                let resent = |whole_log: bool| {
                    stalled.iter().any(|i| {
                        matches!(sim.last_append.get(&(*i as u64)), Some((first, commit, "log_mismatch"))
                            if *first <= *commit && *commit > 0 && (*commit >= leader_log_len) == whole_log)
                    })
                };
                // the follower's commit index is below the leader's log length and still the batch starts at or below it
                let resends_committed = resent(false);
                // the follower's commit index equals the leader's log length: `logs_since` finds nothing newer, its
                // `limit(0)` means unlimited and the whole log is sent
                let whole_log_resent = resent(true);
                // a stalled follower that has *committed* another entry at the index of a missing one is
                // the consequence of diverging commits (C28's concern) seen from here
                let leader = (0..sim.n()).find(|i| sim.nodes[*i].probe().state == ProbeState::Leader);
                let committed_other = leader.is_some_and(|l| {
                    appended.iter().any(|(d, _)| {
                        sim.nodes[l].storage.logs.iter().find(|e| e.data == *d).is_some_and(|le| {
                            stalled
                                .iter()
                                .any(|i| sim.nodes[*i].storage.logs.iter().any(|e| e.index == le.index && e.committed && e.data != *d))
                        })
                    })
                });
                let what = if to_append > 0 {
                    "append_not_accepted"
                } else if committed_other {
                    "replication_stalled_follower_committed_a_different_entry_at_that_index"
                } else if resends_committed {
                    "replication_stalled_leader_resends_entries_the_follower_has_committed"
                } else if whole_log_resent {
                    "replication_stalled_whole_log_resent_to_a_follower_whose_commit_index_is_the_leaders_log_length"
                } else {
                    "replication_stalled"
                };
                rep.violation(
                    &format!("C30:appended_entry_not_committed_everywhere_within_bound:{what}"),
                    &format!("{n} nodes: {} of {k} appends accepted; after {h} virtual ms: {missing:?}; states {:?}; last append batch per node (first index, follower commit before, response): {:?}; leader stores {leader_log_len} logs: {:?}", k - to_append, sim.probes(), sim.last_append,
                        leader.map(|l| sim.nodes[l].storage.logs.iter().map(|e| (e.index, e.term, e.data, e.committed)).collect::<Vec<_>>())),
                    ctx(&sim),
                );
            }
        }
        // safety monitors stay on during the healthy phases; report them to their owners as observations
        for (sig, _) in &sim.violations {
            rep.count(&format!("observed_for_other_property_{}", &sig[..3]));
        }
        if case == 0 {
            rep.sample(|| json!({"nodes": n, "virtual_ms_to_stable_leader": t_elect, "entries": k, "bound_ms": h}));
        }
    }
    fn finish(&self, _args: &Args, rep: &mut Report) {
        rep.require("schedules_from_initial_state", 50);
        rep.require("schedules_after_faulty_prefix", 50);
    }
}

fn main() {
    let args = Args::parse(std::env::args().skip(1));
    let engine = args.pos.first().cloned().unwrap_or_default();
    vcore::panicmon::install();
    let run = |name: &str, args: &Args| -> Option<Report> {
        match name {
            "c27" => vcore::workers::drive(&Safety { prop: "C27" }, args),
            "c28" => vcore::workers::drive(&Safety { prop: "C28" }, args),
            "c29" => vcore::workers::drive(&Safety { prop: "C29" }, args),
            "c30" => vcore::workers::drive(&C30, args),
            _ => {
                eprintln!("unknown engine {name}");
                std::process::exit(2);
            }
        }
    };
    let rep = if engine == "replay" {
        let path = args.pos.get(1).cloned().unwrap_or_default();
        let v: serde_json::Value = serde_json::from_str(&std::fs::read_to_string(&path).expect("read")).expect("parse");
        let w = &v["replay"];
        let a = vec![
            w["engine"].as_str().unwrap_or("").to_string(),
            "--case".into(),
            w["case"].as_u64().unwrap_or(0).to_string(),
            "--seed".into(),
            w["seed"].as_u64().unwrap_or(1).to_string(),
            "--tier".into(),
            w["tier"].as_str().unwrap_or("quick").to_string(),
        ];
        let a2 = Args::parse(a.into_iter());
        let r = run(&a2.pos[0].clone(), &a2);
        if let Some(r) = &r {
            for v in &r.violations {
                println!("REPLAY-VIOLATION {} :: {}", v.signature, v.detail);
            }
            if r.violations.is_empty() {
                println!("REPLAY-OK no violation reproduced");
            }
        }
        r
    } else {
        run(&engine, &args)
    };
    let Some(rep) = rep else { std::process::exit(0) };
    let out = args.str("out", "");
    if !out.is_empty() {
        rep.write(&out);
    } else {
        println!("{}", serde_json::to_string_pretty(&rep.to_json()).unwrap());
    }
}
