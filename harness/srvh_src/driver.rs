//! Driver compiled *inside* a copy of the server crate (see lib/gen_srvh.py), so it
//! can use the server's pub(crate) items: the real ClusterStorage, ClusterLog,
//! ServerDb, DbPool and actions.
//!
//! Engines:
//!   c31     committed actions are executed exactly once each and in log order
//!   simlog  validation of vcore::simlog::SimLogStore (the raft simulator's storage)
//!           against the real ClusterStorage, call by call

use crate::action::ClusterAction;
use crate::action::db_add::DbAdd;
use crate::action::db_exec::DbExec;
use crate::action::user_add::UserAdd;
use crate::raft::Log;
use crate::raft::Storage;
use agdb::QueryBuilder;
use agdb_api::DbKind;
use agdb_api::Queries;
use serde_json::json;
use std::collections::BTreeSet;
use std::time::Duration;
use vcore::Args;
use vcore::report::Report;
use vcore::rng::Rng;
use vcore::rng::derive;
use vcore::rng::tag;
use vcore::simlog::SimLogStore;
use vcore::workers::CaseEngine;

struct Instance {
    server_db: crate::server_db::ServerDb,
    db_pool: crate::db_pool::DbPool,
    cluster_log: crate::cluster_log::ClusterLog,
    cluster: crate::cluster::Cluster,
    config: crate::config::Config,
    _shutdown: tokio::sync::broadcast::Sender<()>,
}

/// builds the real server objects in `dir` (default single-node configuration)
async fn instance(dir: &str) -> Result<Instance, String> {
    std::fs::create_dir_all(dir).map_err(|e| e.to_string())?;
    std::env::set_current_dir(dir).map_err(|e| e.to_string())?;
    let config = crate::config::new("agdb_server.yaml")?;
    crate::password::init(config.pepper);
    let (shutdown, _) = tokio::sync::broadcast::channel::<()>(1);
    let server_db = crate::server_db::new(&config, shutdown.subscribe()).await.map_err(|e| e.description)?;
    let cluster_log = crate::cluster_log::new(&config).await.map_err(|e| e.description)?;
    let db_pool = crate::db_pool::new(config.clone(), &server_db).await.map_err(|e| e.description)?;
    let cluster = crate::cluster::new(&config, &server_db, &cluster_log, &db_pool).await.map_err(|e| e.description)?;
    Ok(Instance {
        server_db,
        db_pool,
        cluster_log,
        cluster,
        config,
        _shutdown: shutdown,
    })
}

fn user_add(i: u64) -> ClusterAction {
    ClusterAction::UserAdd(UserAdd {
        user: format!("user{i:04}"),
        password: vec![i as u8; 8],
        salt: vec![1; 8],
    })
}

/// an order-sensitive batch: node `n<i>` with tag i, linked from its predecessor `n<i-1>` (fails if that is missing)
fn db_exec(i: u64, prev: Option<u64>, heavy: bool) -> ClusterAction {
    let mut queries: Vec<agdb::QueryType> = vec![];
    queries.push(
        QueryBuilder::insert()
            .nodes()
            .aliases(format!("n{i}"))
            .values([[("tag", i).into(), ("pad", "x".repeat(if heavy { 4000 } else { 4 })).into()]])
            .query()
            .into(),
    );
    if let Some(p) = prev {
        queries.push(QueryBuilder::insert().edges().from(format!("n{p}")).to(format!("n{i}")).query().into());
    }
    if heavy {
        // make this task slower than its successors
        queries.push(QueryBuilder::insert().nodes().count(300).query().into());
        queries.push(QueryBuilder::remove().search().from(format!("n{i}")).where_().not().ids(format!("n{i}")).query().into());
    }
    ClusterAction::DbExec(DbExec {
        user: "owner".into(),
        owner: "owner".into(),
        db: "db1".into(),
        queries: Queries(queries),
    })
}

/// a batch that fails when it is executed at its place in the log (the alias it links is inserted by a *later* entry) but
/// would succeed if it were executed again after that entry: its effect must never appear
fn forward_link(later: u64) -> ClusterAction {
    ClusterAction::DbExec(DbExec {
        user: "owner".into(),
        owner: "owner".into(),
        db: "db1".into(),
        queries: Queries(vec![QueryBuilder::insert().edges().from(format!("n{later}")).to(format!("n{later}")).query().into()]),
    })
}

/// a superseded entry: appended at an index and then replaced by another append at the *same* index before anything is
/// committed (what a follower sees when a new leader overwrites the uncommitted tail entry of a deposed one); it must
/// never be executed
fn decoy(index: u64) -> Option<ClusterAction> {
    if index % 7 == 3 {
        Some(ClusterAction::UserAdd(UserAdd {
            user: format!("decoy{index:04}"),
            password: vec![7; 8],
            salt: vec![1; 8],
        }))
    } else {
        None
    }
}

fn preamble() -> Vec<ClusterAction> {
    vec![
        ClusterAction::UserAdd(UserAdd {
            user: "owner".into(),
            password: vec![9; 8],
            salt: vec![1; 8],
        }),
        ClusterAction::DbAdd(DbAdd {
            owner: "owner".into(),
            db: "db1".into(),
            db_type: DbKind::Memory,
        }),
    ]
}

/// observable state: user names by node id, tags of db1 by node id, edges of db1
async fn observe(inst: &Instance) -> Result<(Vec<String>, Vec<u64>, usize), String> {
    let users: Vec<String> = {
        let db = inst.server_db.db.read().await;
        let r = db
            .exec(QueryBuilder::select().values("username").search().elements().where_().keys("username").query())
            .map_err(|e| e.description)?;
        r.elements.iter().map(|e| e.values[0].value.to_string()).collect()
    };
    let r = inst
        .db_pool
        .exec(
            "owner",
            "db1",
            Queries(vec![
                QueryBuilder::select().values("tag").search().elements().where_().keys("tag").query().into(),
                QueryBuilder::search().elements().where_().edge().query().into(),
            ]),
        )
        .await
        .map_err(|e| e.description)?;
    let tags: Vec<u64> = r[0].elements.iter().map(|e| e.values[0].value.to_u64().unwrap_or(0)).collect();
    Ok((users, tags, r[1].elements.len()))
}

async fn wait_executed(rx: &mut tokio::sync::broadcast::Receiver<u64>, n: usize, seen: &mut Vec<u64>) -> bool {
    for _ in 0..n {
        match tokio::time::timeout(Duration::from_secs(60), rx.recv()).await {
            Ok(Ok(i)) => seen.push(i),
            _ => return false,
        }
    }
    true
}

#[derive(Debug, Clone, Copy)]
enum Mode {
    CommitAll,
    CommitEach,
    Restart,
    /// appends and commits interleaved (several client requests in flight at a leader, or a follower whose
    /// heartbeat commit index jumps): commit(j) for some j <= last appended, then more appends, ...
    Interleaved,
    /// everything is committed and executed one entry at a time, then the node restarts: nothing may be executed again
    ExecutedThenRestart,
}

struct Outcome {
    users: Vec<String>,
    tags: Vec<u64>,
    edges: usize,
    notifications: Vec<u64>,
}

/// runs `actions` through the real ClusterStorage in `mode`
async fn run_actions(dir: &str, actions: &[ClusterAction], mode: Mode, sequential_reference: bool) -> Result<Outcome, String> {
    let inst = instance(dir).await?;
    let mut rx = inst.cluster.raft.read().await.storage.subscribe().await;
    let mut seen = vec![];
    let pre = preamble();
    let mut index = 0u64;
    // preamble: strictly sequential in every mode
    for a in &pre {
        index += 1;
        let mut raft = inst.cluster.raft.write().await;
        raft.storage
            .append(Log { db_id: None, index, term: 1, data: a.clone() }, None)
            .await
            .map_err(|e| e.description)?;
        raft.storage.commit(index).await.map_err(|e| e.description)?;
        drop(raft);
        if !wait_executed(&mut rx, 1, &mut seen).await {
            return Err("timeout waiting for the preamble".into());
        }
    }
    let first = index + 1;
    if sequential_reference {
        for a in actions {
            index += 1;
            let mut raft = inst.cluster.raft.write().await;
            if let Some(d) = decoy(index) {
                raft.storage.append(Log { db_id: None, index, term: 1, data: d }, None).await.map_err(|e| e.description)?;
            }
            raft.storage.append(Log { db_id: None, index, term: 1, data: a.clone() }, None).await.map_err(|e| e.description)?;
            raft.storage.commit(index).await.map_err(|e| e.description)?;
            drop(raft);
            if !wait_executed(&mut rx, 1, &mut seen).await {
                return Err("timeout in the sequential reference".into());
            }
        }
    } else if let Mode::Interleaved = mode {
        let mut rng = Rng::new(actions.len() as u64 * 7919 + first);
        let mut committed = index;
        let mut next = 0usize;
        while committed < first - 1 + actions.len() as u64 {
            let mut raft = inst.cluster.raft.write().await;
            // append a few
            let burst = 1 + rng.usize(3);
            for _ in 0..burst {
                if next < actions.len() {
                    index += 1;
                    if let Some(d) = decoy(index) {
                        raft.storage.append(Log { db_id: None, index, term: 1, data: d }, None).await.map_err(|e| e.description)?;
                    }
                    raft.storage.append(Log { db_id: None, index, term: 1, data: actions[next].clone() }, None).await.map_err(|e| e.description)?;
                    next += 1;
                }
            }
            // commit up to some appended index (not necessarily all)
            if index > committed {
                let upto = committed + 1 + rng.below(index - committed);
                raft.storage.commit(upto).await.map_err(|e| e.description)?;
                committed = upto;
            }
        }
        if !wait_executed(&mut rx, actions.len(), &mut seen).await {
            return Err("timeout waiting for executions".into());
        }
    } else {
        {
            let mut raft = inst.cluster.raft.write().await;
            for a in actions {
                index += 1;
                if let Some(d) = decoy(index) {
                    raft.storage.append(Log { db_id: None, index, term: 1, data: d }, None).await.map_err(|e| e.description)?;
                }
                raft.storage.append(Log { db_id: None, index, term: 1, data: a.clone() }, None).await.map_err(|e| e.description)?;
            }
        }
        match mode {
            Mode::Interleaved => unreachable!("handled below"),
            Mode::CommitAll => {
                inst.cluster.raft.write().await.storage.commit(index).await.map_err(|e| e.description)?;
                if !wait_executed(&mut rx, actions.len(), &mut seen).await {
                    return Err("timeout waiting for executions".into());
                }
            }
            Mode::CommitEach | Mode::ExecutedThenRestart => {
                for i in first..=index {
                    inst.cluster.raft.write().await.storage.commit(i).await.map_err(|e| e.description)?;
                }
                if !wait_executed(&mut rx, actions.len(), &mut seen).await {
                    return Err("timeout waiting for executions".into());
                }
                if let Mode::ExecutedThenRestart = mode {
                    // the executor marks an entry executed after the notification: wait for the bookkeeping to settle
                    for _ in 0..100 {
                        if inst.cluster_log.logs_unexecuted(index).await.map_err(|e| e.description)?.is_empty() {
                            break;
                        }
                        tokio::time::sleep(Duration::from_millis(20)).await;
                    }
                    // a graceful restart: a new ClusterStorage over the same log and databases
                    let cluster2 = crate::cluster::new(&inst.config, &inst.server_db, &inst.cluster_log, &inst.db_pool).await.map_err(|e| e.description)?;
                    // give a (wrong) replay the time to run
                    tokio::time::sleep(Duration::from_millis(700)).await;
                    drop(cluster2);
                }
            }
            Mode::Restart => {
                // committed but (mostly) not executed when the node stops: mark committed directly in the log,
                // as a node that crashed between commit and execution would find it
                let uncommitted = inst.cluster_log.logs_uncommitted(index).await.map_err(|e| e.description)?;
                for l in &uncommitted {
                    inst.cluster_log.log_committed(l.db_id.expect("db_id")).await.map_err(|e| e.description)?;
                }
                // a new ClusterStorage replays the unexecuted committed logs
                let cluster2 = crate::cluster::new(&inst.config, &inst.server_db, &inst.cluster_log, &inst.db_pool).await.map_err(|e| e.description)?;
                // no subscription could exist before the replay started: wait until the log says everything is executed
                for _ in 0..600 {
                    if inst.cluster_log.logs_unexecuted(index).await.map_err(|e| e.description)?.is_empty() {
                        break;
                    }
                    tokio::time::sleep(Duration::from_millis(100)).await;
                }
                if !inst.cluster_log.logs_unexecuted(index).await.map_err(|e| e.description)?.is_empty() {
                    return Err("timeout waiting for the replay after restart".into());
                }
                drop(cluster2);
            }
        }
    }
    let (users, tags, edges) = observe(&inst).await?;
    Ok(Outcome {
        users,
        tags,
        edges,
        notifications: seen,
    })
}

struct C31;

impl CaseEngine for C31 {
    fn property(&self) -> &'static str {
        "C31"
    }
    fn rule(&self) -> String {
        "the real ServerDb, ClusterLog, DbPool and ClusterStorage (server sources compiled into the harness unmodified) on a multi-thread \
         tokio runtime with 2-16 workers: k uniquely tagged, order-sensitive actions (UserAdd of distinct users; DbExec batches that fail at \
         their place in the log because they link a node only a later entry creates - their effect must never appear, in particular not \
         after a restart; every seventh index first receives an entry that is then superseded by another append at the same index (it must \
         never run); \
         after a restart that follows the complete execution of the log; DbExec batches inserting a \
         tagged node linked from its predecessor, some made slow) are appended through ClusterStorage::append and committed (a) with one \
         commit(k), (b) with k successive commit(i), (c) by marking them committed and constructing a new ClusterStorage (restart replay). \
         Verdict from state: user nodes and tagged nodes appear in log order (ids assigned by the databases record the execution order), \
         every tag exactly once, and users / tags / edges equal those of a reference instance that commits one entry at a time awaiting \
         each execution. evaluations = actions committed; distinct = distinct executed-order permutations observed (from notifications) plus distinct (mode, runtime workers, chained, failing actions) configurations"
            .into()
    }
    fn cases(&self, args: &Args) -> usize {
        args.u64("n", if args.thorough() { 300 } else { 30 }) as usize
    }
    fn case_timeout_s(&self, _args: &Args) -> u64 {
        300
    }
    fn alloc_cap(&self) -> usize {
        0
    }
    fn run_case(&self, args: &Args, case: usize, rep: &mut Report, _p: &dyn Fn(&str)) {
        let seed = derive(args.u64("seed", 1), &[tag("C31"), case as u64]);
        let mut rng = Rng::new(seed);
        let scratch = args.str("scratch", "/verif/scratch/c31");
        let dir = vcore::scratch_dir(&scratch, &format!("c{case}"));
        let k = args.u64("logs", if args.thorough() { 100 } else { 40 });
        let mode = [Mode::CommitAll, Mode::CommitEach, Mode::Restart, Mode::Interleaved, Mode::ExecutedThenRestart][case % 5];
        let chained = (case / 5) % 2 == 0;
        let mut prev_tag: Option<u64> = None;
        let mut forward: Vec<usize> = vec![];
        let mut actions: Vec<ClusterAction> = (1..=k)
            .map(|i| {
                if rng.chance(1, 3) {
                    user_add(i)
                } else if rng.chance(1, 6) && i + 2 < k {
                    // placeholder, resolved below once the later tags are known
                    forward.push(i as usize - 1);
                    user_add(i)
                } else {
                    // chained: the batch links its node from the node of the previous batch, so it fails when executed early
                    let a = db_exec(i, if chained { prev_tag } else { None }, rng.chance(1, 4));
                    prev_tag = Some(i);
                    a
                }
            })
            .collect();
        // failing actions: link a node that only a later entry creates
        let mut failing = 0;
        for pos in forward {
            let later = (pos + 1..actions.len()).find(|j| matches!(&actions[*j], ClusterAction::DbExec(d) if d.queries.0.len() > 0 && format!("{:?}", d.queries.0[0]).contains("tag")));
            if let Some(j) = later {
                actions[pos] = forward_link(j as u64 + 1);
                failing += 1;
            }
        }
        rep.add("actions_that_fail_at_their_place_in_the_log", failing);
        // the server creates the built-in admin before anything else
        let expect_users: Vec<String> = ["admin".to_string(), "owner".to_string()]
            .into_iter()
            .chain(actions.iter().filter_map(|a| if let ClusterAction::UserAdd(u) = a { Some(u.user.clone()) } else { None }))
            .collect();
        let expect_tags: Vec<u64> = (1..=k)
            .filter(|i| matches!(&actions[(*i - 1) as usize], ClusterAction::DbExec(d) if format!("{:?}", d.queries.0[0]).contains("tag")))
            .collect();
        let workers = 2 + rng.usize(15);
        let rt = tokio::runtime::Builder::new_multi_thread().worker_threads(workers).enable_all().build().expect("runtime");
        let tested = rt.block_on(run_actions(&format!("{dir}/tested"), &actions, mode, false));
        let reference = rt.block_on(run_actions(&format!("{dir}/reference"), &actions, mode, true));
        drop(rt);
        let _ = std::env::set_current_dir("/");
        rep.evaluations += k;
        rep.count(&format!("runs_{mode:?}").to_lowercase());
        let ctx = json!({"engine":"c31","case":case,"seed":args.u64("seed",1),"tier":args.str("tier","quick"),"mode":format!("{mode:?}"),"logs":k,"runtime_workers":workers,"chained":chained});
        match (tested, reference) {
            (Ok(t), Ok(r)) => {
                rep.distinct_hash(tag(&format!("{:?}", t.notifications)));
                rep.distinct_hash(tag(&format!("{mode:?}|{workers}|{chained}|{failing}")));
                let in_order = t.notifications.windows(2).all(|w| w[0] < w[1]);
                if !in_order {
                    rep.count("runs_with_notifications_out_of_order");
                }
                let mut dup = BTreeSet::new();
                let repeated: Vec<u64> = t.tags.iter().copied().filter(|x| !dup.insert(*x)).collect();
                let v: Option<(String, String)> = if !repeated.is_empty() {
                    Some(("action_executed_more_than_once".into(), format!("tags {repeated:?} appear more than once: {:?}", t.tags)))
                } else if t.users != expect_users {
                    let mut a = t.users.clone();
                    a.sort();
                    let mut b = expect_users.clone();
                    b.sort();
                    Some((
                        if a == b { "user_actions_executed_out_of_log_order" } else { "user_action_lost_or_repeated" }.into(),
                        format!("users by id {:?}, log order {:?}", t.users, expect_users),
                    ))
                } else if t.tags != expect_tags {
                    let mut a = t.tags.clone();
                    a.sort();
                    Some((
                        if a == expect_tags { "db_actions_executed_out_of_log_order" } else { "db_action_lost" }.into(),
                        format!("tags by id {:?}, log order {:?}", t.tags, expect_tags),
                    ))
                } else if t.users != r.users || t.tags != r.tags || t.edges != r.edges {
                    Some((
                        "state_differs_from_sequential_reference".into(),
                        format!("edges {} vs {}, users equal {}, tags equal {}", t.edges, r.edges, t.users == r.users, t.tags == r.tags),
                    ))
                } else {
                    None
                };
                if let Some((class, detail)) = v {
                    rep.violation(&format!("C31:{class}:{mode:?}").to_lowercase().replace("c31:", "C31:"), &format!("[{mode:?}, {workers} workers] {detail}"), ctx);
                } else {
                    rep.count("runs_in_log_order");
                }
                if case < 2 {
                    rep.sample(|| json!({"mode": format!("{mode:?}"), "logs": k, "notifications": t.notifications, "users": t.users.len(), "tags": t.tags.len()}));
                }
            }
            (Err(e), _) | (_, Err(e)) => rep.inconclusive(&format!("case {case} ({mode:?}): {e}")),
        }
        let _ = std::fs::remove_dir_all(&dir);
    }
    fn finish(&self, args: &Args, rep: &mut Report) {
        rep.require("actions_that_fail_at_their_place_in_the_log", 10);
        for m in ["runs_commitall", "runs_commiteach", "runs_restart", "runs_interleaved", "runs_executedthenrestart"] {
            rep.require(m, 3);
        }
        let _ = std::fs::remove_dir_all(args.str("scratch", "/verif/scratch/c31"));
    }
}

// ---------------------------------------------------------------------------
// simlog: the simulator's storage mirror against the real ClusterStorage
// ---------------------------------------------------------------------------

struct SimLog;

impl CaseEngine for SimLog {
    fn property(&self) -> &'static str {
        "C28"
    }
    fn rule(&self) -> String {
        "random append / commit / logs call sequences (appends that truncate uncommitted entries, re-appends at committed indexes, commits \
         beyond the end, commits of nothing) against the real ClusterStorage and against vcore::simlog::SimLogStore; log_index, log_term, \
         log_commit and logs(from) for several `from` must agree after every call"
            .into()
    }
    fn cases(&self, args: &Args) -> usize {
        args.u64("n", if args.thorough() { 200 } else { 24 }) as usize
    }
    fn alloc_cap(&self) -> usize {
        0
    }
    fn case_timeout_s(&self, _args: &Args) -> u64 {
        300
    }
    fn run_case(&self, args: &Args, case: usize, rep: &mut Report, _p: &dyn Fn(&str)) {
        let seed = derive(args.u64("seed", 1), &[tag("simlog"), case as u64]);
        let mut rng = Rng::new(seed);
        let scratch = args.str("scratch", "/verif/scratch/simlog");
        let dir = vcore::scratch_dir(&scratch, &format!("c{case}"));
        let rt = tokio::runtime::Builder::new_multi_thread().worker_threads(2).enable_all().build().expect("runtime");
        let calls = args.u64("calls", 40);
        let r: Result<Option<String>, String> = rt.block_on(async {
            let inst = instance(&dir).await?;
            let mut sim = SimLogStore::default();
            let mut trace = vec![];
            let mut data = 0u64;
            for _ in 0..calls {
                let mut raft = inst.cluster.raft.write().await;
                match rng.below(10) {
                    0..=5 => {
                        // append at next index, or overwrite an earlier (possibly committed) index
                        let index = if rng.chance(1, 4) { 1 + rng.below(sim.index + 1) } else { sim.index + 1 };
                        let term = sim.term + rng.below(2);
                        data += 1;
                        trace.push(format!("append({index},{term})"));
                        raft.storage
                            .append(Log { db_id: None, index, term, data: user_add(10_000 + case as u64 * 1000 + data) }, None)
                            .await
                            .map_err(|e| e.description)?;
                        sim.append(index, term, data);
                    }
                    6..=8 => {
                        let index = rng.below(sim.index + 3);
                        trace.push(format!("commit({index})"));
                        raft.storage.commit(index).await.map_err(|e| e.description)?;
                        sim.commit(index);
                    }
                    _ => trace.push("probe".into()),
                }
                rep.eval();
                let real = (raft.storage.log_index(), raft.storage.log_term(), raft.storage.log_commit());
                if real != (sim.index, sim.term, sim.commit) {
                    return Ok(Some(format!("after {trace:?}: real (index, term, commit) = {real:?}, mirror = {:?}", (sim.index, sim.term, sim.commit))));
                }
                for from in [0, 1, sim.logs.len() as u64 / 2, sim.logs.len() as u64, sim.logs.len() as u64 + 3] {
                    let a: Vec<(u64, u64)> = raft.storage.logs(from).await.map_err(|e| e.description)?.iter().map(|l| (l.index, l.term)).collect();
                    let b: Vec<(u64, u64)> = sim.logs_since(from).iter().map(|l| (l.index, l.term)).collect();
                    if a != b {
                        return Ok(Some(format!("after {trace:?}: logs({from}) real {a:?} mirror {b:?}")));
                    }
                }
            }
            rep.count("traces_validated");
            Ok(None)
        });
        drop(rt);
        let _ = std::env::set_current_dir("/");
        match r {
            Ok(None) => {}
            Ok(Some(d)) => rep.violation(
                "C28:simulator_storage_mirror_differs_from_real_cluster_storage",
                &d,
                json!({"engine":"simlog","case":case,"seed":args.u64("seed",1),"tier":args.str("tier","quick")}),
            ),
            Err(e) => rep.inconclusive(&format!("simlog case {case}: {e}")),
        }
        let _ = std::fs::remove_dir_all(&dir);
    }
    fn finish(&self, args: &Args, rep: &mut Report) {
        rep.require("traces_validated", 10);
        let n = rep.counters.get("traces_validated").copied().unwrap_or(0);
        rep.extra.insert("traces_validated_against_impl".into(), json!(n));
        let _ = std::fs::remove_dir_all(args.str("scratch", "/verif/scratch/simlog"));
    }
}

pub(crate) fn main() {
    let args = Args::parse(std::env::args().skip(1));
    let engine = args.pos.first().cloned().unwrap_or_default();
    vcore::panicmon::install();
    let run = |name: &str, args: &Args| -> Option<Report> {
        match name {
            "c31" => vcore::workers::drive(&C31, args),
            "simlog" => vcore::workers::drive(&SimLog, args),
            _ => match crate::verif_http_driver::engine(name, args) {
                Some(r) => r,
                None => {
                    eprintln!("unknown engine {name}");
                    std::process::exit(2);
                }
            },
        }
    };
    let rep = if engine == "replay" {
        let path = args.pos.get(1).cloned().unwrap_or_default();
        let v: serde_json::Value = serde_json::from_str(&std::fs::read_to_string(&path).expect("read")).expect("parse");
        let w = &v["replay"];
        let a = vec![
            w["engine"].as_str().unwrap_or("").to_string(),
            "--case".into(),
            w["case"].as_u64().unwrap_or(0).to_string(),
            "--seed".into(),
            w["seed"].as_u64().unwrap_or(1).to_string(),
            "--tier".into(),
            w["tier"].as_str().unwrap_or("quick").to_string(),
        ];
        let a2 = Args::parse(a.into_iter());
        let r = run(&a2.pos[0].clone(), &a2);
        if let Some(r) = &r {
            for v in &r.violations {
                println!("REPLAY-VIOLATION {} :: {}", v.signature, v.detail);
            }
            if r.violations.is_empty() {
                println!("REPLAY-OK no violation reproduced");
            }
        }
        r
    } else {
        run(&engine, &args)
    };
    let Some(rep) = rep else { std::process::exit(0) };
    let out = args.str("out", "");
    if !out.is_empty() {
        rep.write(&out);
    } else {
        println!("{}", serde_json::to_string_pretty(&rep.to_json()).unwrap());
    }
}
