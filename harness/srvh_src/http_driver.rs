//! Engines that drive a *real* agdb_server process (built from /repo's working tree)
//! over HTTP: C24 (authentication and per-database permissions), C25 (query batches
//! are all-or-nothing and audited exactly), C26 (database files stay inside the
//! owner's directory and never collide; the server runs under strace).

use agdb::DbMemory;
use agdb::QueryBuilder;
use agdb::QueryId;
use agdb::QueryIds;
use agdb::QueryResult;
use agdb::QueryType;
use agdb_api::AgdbApi;
use agdb_api::DbKind;
use agdb_api::DbResource;
use agdb_api::DbUserRole;
use agdb_api::ReqwestClient;
use serde_json::json;
use std::collections::BTreeMap;
use std::collections::BTreeSet;
use std::io::Read;
use std::io::Write;
use std::process::Child;
use std::process::Command;
use std::process::Stdio;
use std::time::Duration;
use vcore::Args;
use vcore::report::Report;
use vcore::rng::Rng;
use vcore::rng::derive;
use vcore::rng::tag;
use vcore::workers::CaseEngine;

type Api = AgdbApi<ReqwestClient>;

pub(crate) struct Server {
    child: Child,
    pub(crate) port: u16,
    pub(crate) dir: String,
    strace_log: Option<String>,
}

fn server_binary() -> String {
    std::env::var("VERIF_SERVER_BIN").unwrap_or("/verif/target/server/debug/agdb_server".to_string())
}

impl Server {
    /// starts the real server in `dir` on a free port; `strace` wraps it for C26
    pub(crate) async fn start(dir: &str, seed: u64, strace: bool) -> Result<Server, String> {
        Self::start_with(dir, seed, strace, 3600).await
    }
    pub(crate) async fn start_with(dir: &str, seed: u64, strace: bool, token_expiry_seconds: u64) -> Result<Server, String> {
        std::fs::create_dir_all(dir).map_err(|e| e.to_string())?;
        for attempt in 0..20u64 {
            let port = 20_000 + ((vcore::rng::mix(seed ^ (attempt * 977) ^ std::process::id() as u64)) % 30_000) as u16;
            if std::net::TcpListener::bind(("127.0.0.1", port)).is_err() {
                continue;
            }
            let yaml = format!(
                "bind: 127.0.0.1:{port}\naddress: http://127.0.0.1:{port}\nbasepath: \nadmin: admin\nlog_level: OFF\ndata_dir: data\ncluster: []\ntoken_expiry_seconds: {token_expiry_seconds}\n"
            );
            std::fs::write(format!("{dir}/agdb_server.yaml"), yaml).map_err(|e| e.to_string())?;
            let strace_log = if strace { Some(format!("{dir}/strace.log")) } else { None };
            let mut cmd = if let Some(log) = &strace_log {
                let mut c = Command::new("strace");
                c.args(["-f", "-y", "-qq", "-s", "256", "-e", "trace=open,openat,creat,rename,renameat,renameat2,unlink,unlinkat,mkdir,mkdirat,rmdir,truncate,ftruncate,link,linkat,symlink,symlinkat", "-o", log]);
                c.arg(server_binary());
                c
            } else {
                Command::new(server_binary())
            };
            let child = cmd
                .current_dir(dir)
                .stdin(Stdio::null())
                .stdout(Stdio::null())
                .stderr(Stdio::null())
                .spawn()
                .map_err(|e| format!("cannot start {}: {e}", server_binary()))?;
            let mut s = Server {
                child,
                port,
                dir: dir.to_string(),
                strace_log,
            };
            let api = s.api();
            for _ in 0..300 {
                if let Ok(200) = api.status().await {
                    return Ok(s);
                }
                if let Ok(Some(_)) = s.child.try_wait() {
                    break;
                }
                tokio::time::sleep(Duration::from_millis(50)).await;
            }
            let _ = s.child.kill();
            let _ = s.child.wait();
        }
        Err("server did not start".into())
    }
    pub(crate) fn api(&self) -> Api {
        let client = reqwest::Client::builder().timeout(Duration::from_secs(60)).build().expect("client");
        AgdbApi::new(ReqwestClient::with_client(client), &format!("http://127.0.0.1:{}", self.port))
    }
    pub(crate) async fn admin(&self) -> Result<Api, String> {
        let mut a = self.api();
        a.user_login("admin", "admin").await.map_err(|e| format!("admin login: {e}"))?;
        Ok(a)
    }
    pub(crate) async fn stop(mut self) -> Option<String> {
        if let Ok(a) = self.admin().await {
            let _ = a.admin_shutdown().await;
        }
        for _ in 0..100 {
            if let Ok(Some(_)) = self.child.try_wait() {
                return self.strace_log.clone();
            }
            tokio::time::sleep(Duration::from_millis(50)).await;
        }
        let _ = self.child.kill();
        let _ = self.child.wait();
        self.strace_log.clone()
    }
    /// raw HTTP/1.1 request (URL libraries normalise `..` and percent-encodings away)
    pub(crate) fn raw(&self, method: &str, path: &str, token: &str, body: &str) -> Result<(u16, String), String> {
        let mut s = std::net::TcpStream::connect(("127.0.0.1", self.port)).map_err(|e| e.to_string())?;
        s.set_read_timeout(Some(Duration::from_secs(30))).ok();
        let req = format!(
            "{method} {path} HTTP/1.1\r\nHost: 127.0.0.1:{}\r\nAuthorization: Bearer {token}\r\nContent-Type: application/json\r\nContent-Length: {}\r\nConnection: close\r\n\r\n{body}",
            self.port,
            body.len()
        );
        s.write_all(req.as_bytes()).map_err(|e| e.to_string())?;
        let mut buf = vec![];
        let _ = s.read_to_end(&mut buf);
        let text = String::from_utf8_lossy(&buf).to_string();
        let status = text.split_whitespace().nth(1).and_then(|x| x.parse().ok()).unwrap_or(0);
        Ok((status, text))
    }
}

impl Drop for Server {
    fn drop(&mut self) {
        let _ = self.child.kill();
        let _ = self.child.wait();
    }
}

fn ok(status: Result<u16, agdb_api::AgdbApiError>) -> (bool, u16) {
    match status {
        Ok(s) => ((200..300).contains(&s), s),
        Err(e) => (false, e.status),
    }
}

// ---------------------------------------------------------------------------
// C24
// ---------------------------------------------------------------------------

#[derive(Clone, Copy, PartialEq, Eq, PartialOrd, Ord, Debug)]
enum Role {
    Read,
    Write,
    Admin,
}

impl Role {
    fn api(self) -> DbUserRole {
        match self {
            Role::Read => DbUserRole::Read,
            Role::Write => DbUserRole::Write,
            Role::Admin => DbUserRole::Admin,
        }
    }
}

#[derive(Default, Clone, Debug, PartialEq)]
struct PermModel {
    /// user -> password
    users: BTreeMap<String, String>,
    /// (owner, db) -> user -> role (the owner holds Admin)
    dbs: BTreeMap<(String, String), BTreeMap<String, Role>>,
}

impl PermModel {
    fn role(&self, user: &str, owner: &str, db: &str) -> Option<Role> {
        self.dbs.get(&(owner.to_string(), db.to_string())).and_then(|m| m.get(user)).copied()
    }
    fn is_owner(&self, user: &str, owner: &str, db: &str) -> bool {
        user == owner && self.dbs.contains_key(&(owner.to_string(), db.to_string()))
    }
}

#[derive(Clone, Debug)]
enum Actor {
    /// logged-in user with a live token
    User(String),
    Admin,
    NoToken,
    Garbage,
    /// token of a session that was logged out
    LoggedOut(String),
    /// token of a user that has been deleted
    Deleted(String),
}

/// what the admin API shows: (db list, user list, per-db users, per-db content fingerprint)
async fn probe(admin: &Api) -> Result<String, String> {
    let mut out = String::new();
    let (_, mut dbs) = admin.admin_db_list().await.map_err(|e| format!("admin_db_list: {e}"))?;
    dbs.sort_by(|a, b| (&a.owner, &a.db).cmp(&(&b.owner, &b.db)));
    for d in &dbs {
        out.push_str(&format!("db {}/{} {:?} backup={}\n", d.owner, d.db, d.db_type, d.backup));
        let (_, mut us) = admin.admin_db_user_list(&d.owner, &d.db).await.map_err(|e| format!("admin_db_user_list {}/{}: {e}", d.owner, d.db))?;
        us.sort_by(|a, b| a.username.cmp(&b.username));
        for u in us {
            out.push_str(&format!("  role {} {:?}\n", u.username, u.role));
        }
        let q: Vec<QueryType> = vec![QueryBuilder::select().search().elements().query().into(), QueryBuilder::select().aliases().query().into()];
        match admin.admin_db_exec(&d.owner, &d.db, &q).await {
            Ok((_, r)) => out.push_str(&format!("  content {}\n", vcore::rng::tag(&format!("{r:?}")))),
            Err(e) => out.push_str(&format!("  content-error {}\n", e.status)),
        }
    }
    let (_, mut us) = admin.admin_user_list().await.map_err(|e| format!("admin_user_list: {e}"))?;
    us.sort_by(|a, b| a.username.cmp(&b.username));
    for u in us {
        out.push_str(&format!("user {} admin={}\n", u.username, u.admin));
    }
    Ok(out)
}

struct C24;

const USERS: [&str; 4] = ["alice", "bob", "carol", "dave"];
const DBS: [&str; 3] = ["d1", "d2", "d3"];

impl CaseEngine for C24 {
    fn property(&self) -> &'static str {
        "C24"
    }
    fn rule(&self) -> String {
        "a real agdb_server process driven strictly sequentially over HTTP by generated multi-user request sequences: actors = each user with a \
         live token, the server admin, no token, a garbage token, the token of a logged-out session, the token of a deleted user; endpoints = \
         db add / backup / restore / clear / convert / copy / delete / remove / rename / optimize / exec (read batch) / exec_mut (mutating and \
         read-only batch) / audit / user add / user remove / user list, user change_password / logout, admin user add / delete / db add / db \
         user add; the documented permission table (owner / read / write / admin / server admin) predicts 'permitted'; a request that is not \
         permitted must not succeed (no 2xx) and the state probe through the admin API (database list with backup stamps, users, per-database \
         roles, content fingerprints) must be unchanged; a role change or logout that returned 2xx must be visible in the next probe. \
         evaluations = requests; distinct = distinct (endpoint, caller relation to target, permitted, outcome class) tuples. Thorough tier only: one case runs a server with token_expiry_seconds = 60 \
         (the minimum), waits 64 s and sends 13 user and admin requests with the expired tokens: none may succeed, the state probe (fresh admin login) must be unchanged"
            .into()
    }
    fn cases(&self, args: &Args) -> usize {
        args.u64("n", if args.thorough() { 32 } else { 6 }) as usize
    }
    fn case_timeout_s(&self, _args: &Args) -> u64 {
        180
    }
    fn alloc_cap(&self) -> usize {
        0
    }
    fn run_case(&self, args: &Args, case: usize, rep: &mut Report, progress: &dyn Fn(&str)) {
        let seed = derive(args.u64("seed", 1), &[tag("C24"), case as u64]);
        let scratch = args.str("scratch", "/verif/scratch/c24");
        let dir = vcore::scratch_dir(&scratch, &format!("c{case}"));
        let requests = args.u64("requests", if args.thorough() { 1500 } else { 400 });
        let rt = tokio::runtime::Builder::new_multi_thread().worker_threads(2).enable_all().build().expect("runtime");
        if args.u64("expiry", if args.thorough() { 1 } else { 0 }) == 1 && case == 0 {
            // token expiry by time: the shortest expiry the server accepts is 60 s
            let r: Result<(), String> = rt.block_on(async {
                let server = Server::start_with(&dir, seed, false, 60).await?;
                let started = std::time::Instant::now();
                let old_admin = server.admin().await?;
                old_admin.admin_user_add("alice", "alice_password1").await.map_err(|e| e.to_string())?;
                let mut alice = server.api();
                alice.user_login("alice", "alice_password1").await.map_err(|e| e.to_string())?;
                alice.db_add("alice", "d1", DbKind::Memory).await.map_err(|e| e.to_string())?;
                let mutating: Vec<QueryType> = vec![QueryBuilder::insert().nodes().count(1).query().into()];
                let reading: Vec<QueryType> = vec![QueryBuilder::select().node_count().query().into()];
                if !ok(alice.db_exec_mut("alice", "d1", &mutating).await.map(|x| x.0)).0 {
                    return Err("fresh token does not work".into());
                }
                let before = probe(&old_admin).await?;
                while started.elapsed() < Duration::from_secs(64) {
                    progress("waiting for the tokens to expire");
                    tokio::time::sleep(Duration::from_secs(2)).await;
                }
                let outcomes: Vec<(&str, (bool, u16))> = vec![
                    ("db_list", ok(alice.db_list().await.map(|x| x.0))),
                    ("db_add", ok(alice.db_add("alice", "d2", DbKind::Memory).await)),
                    ("db_exec", ok(alice.db_exec("alice", "d1", &reading).await.map(|x| x.0))),
                    ("db_exec_mut", ok(alice.db_exec_mut("alice", "d1", &mutating).await.map(|x| x.0))),
                    ("db_audit", ok(alice.db_audit("alice", "d1").await.map(|x| x.0))),
                    ("db_backup", ok(alice.db_backup("alice", "d1").await)),
                    ("db_user_list", ok(alice.db_user_list("alice", "d1").await.map(|x| x.0))),
                    ("db_delete", ok(alice.db_delete("alice", "d1").await)),
                    ("user_status", ok(alice.user_status().await.map(|x| x.0))),
                    ("user_change_password", ok(alice.user_change_password("alice_password1", "alice_password2").await)),
                    ("admin_db_list", ok(old_admin.admin_db_list().await.map(|x| x.0))),
                    ("admin_user_add", ok(old_admin.admin_user_add("mallory", "mallory_password1").await)),
                    ("admin_db_exec_mut", ok(old_admin.admin_db_exec_mut("alice", "d1", &mutating).await.map(|x| x.0))),
                ];
                let fresh_admin = server.admin().await?;
                let after = probe(&fresh_admin).await?;
                for (name, (success, code)) in &outcomes {
                    rep.eval();
                    rep.count("requests_with_an_expired_token");
                    rep.distinct_hash(tag(&format!("expired|{name}|{success}")));
                    if *success {
                        rep.violation(&format!("C24:expired_token_accepted:{name}"), &format!("{name} with a token older than token_expiry_seconds (60 s) returned {code}"),
                            json!({"engine":"c24","case":case,"seed":args.u64("seed",1),"tier":args.str("tier","quick"),"endpoint":name}));
                    }
                }
                if before != after {
                    rep.violation("C24:request_with_expired_token_changed_state", &format!("state changed by requests with expired tokens:\n{before}\n--->\n{after}"),
                        json!({"engine":"c24","case":case,"seed":args.u64("seed",1),"tier":args.str("tier","quick")}));
                } else {
                    rep.count("expired_token_requests_rejected_without_effect");
                }
                // a new login still works after the old token expired
                let mut again = server.api();
                if !ok(again.user_login("alice", "alice_password1").await).0 || !ok(again.db_exec("alice", "d1", &reading).await.map(|x| x.0)).0 {
                    rep.inconclusive("expiry scenario: a fresh login after expiry does not work");
                }
                server.stop().await;
                Ok(())
            });
            drop(rt);
            if let Err(e) = r {
                rep.inconclusive(&format!("case {case} (expiry): {e}"));
            }
            let _ = std::fs::remove_dir_all(&dir);
            return;
        }
        let r: Result<(), String> = rt.block_on(async {
            let server = Server::start(&dir, seed, false).await?;
            let admin = server.admin().await?;
            let mut rng = Rng::new(seed);
            let mut model = PermModel::default();
            let mut tokens: BTreeMap<String, Api> = BTreeMap::new();
            let mut dead: Vec<(Api, Actor)> = vec![];
            let mut fired: BTreeSet<String> = BTreeSet::new();
            // seed users
            for u in USERS {
                let pw = format!("{u}_password1");
                if ok(admin.admin_user_add(u, &pw).await).0 {
                    model.users.insert(u.to_string(), pw.clone());
                    let mut a = server.api();
                    if ok(a.user_login(u, &pw).await).0 {
                        tokens.insert(u.to_string(), a);
                    }
                }
            }
            let mutating: Vec<QueryType> = vec![QueryBuilder::insert().nodes().count(1).query().into()];
            let reading: Vec<QueryType> = vec![QueryBuilder::select().node_count().query().into()];
            // bootstrap: every user owns d1 and the others hold random roles in it (through the real API)
            for u in USERS {
                if let Some(a) = tokens.get(u) {
                    if ok(a.db_add(u, "d1", DbKind::Memory).await).0 {
                        model.dbs.insert((u.to_string(), "d1".to_string()), BTreeMap::from([(u.to_string(), Role::Admin)]));
                        for v in USERS {
                            if v != u && rng.chance(3, 4) {
                                let r = [Role::Read, Role::Write, Role::Admin][rng.usize(3)];
                                if ok(a.db_user_add(u, "d1", v, r.api()).await).0 {
                                    model.dbs.get_mut(&(u.to_string(), "d1".to_string())).map(|m| m.insert(v.to_string(), r));
                                }
                            }
                        }
                    }
                }
            }
            let mut last_probe = probe(&admin).await?;
            for step in 0..requests {
                // ---- choose actor ----
                let mut dead_pick = 0usize;
                let actor = match rng.below(14) {
                    0 => Actor::NoToken,
                    1 => Actor::Garbage,
                    2 => Actor::Admin,
                    3 if !dead.is_empty() => {
                        // recent ones preferred: each dead token is tried soon after it died
                        dead_pick = if rng.chance(1, 2) { dead.len() - 1 } else { rng.usize(dead.len()) };
                        dead[dead_pick].1.clone()
                    }
                    _ => {
                        let live: Vec<&String> = tokens.keys().collect();
                        if live.is_empty() { Actor::Admin } else { Actor::User(live[rng.usize(live.len())].clone()) }
                    }
                };
                let quoted = rng.chance(1, 3);
                if quoted {
                    rep.count("requests_with_a_quoted_token");
                }
                let (api, who, valid): (Api, String, bool) = match &actor {
                    Actor::User(u) => {
                        let mut a = server.api();
                        // the server accepts the token with and without the double quotes of the JSON string the
                        // login route returns; both spellings are the same session
                        a.token = if quoted { tokens[u].token.clone().map(|t| format!("\"{t}\"")) } else { tokens[u].token.clone() };
                        (a, u.clone(), true)
                    }
                    Actor::Admin => {
                        let mut a = server.api();
                        a.token = admin.token.clone();
                        (a, "admin".into(), true)
                    }
                    Actor::NoToken => (server.api(), "<none>".into(), false),
                    Actor::Garbage => {
                        let mut a = server.api();
                        a.token = Some("00000000-dead-beef-0000-000000000000".into());
                        (a, "<garbage>".into(), false)
                    }
                    Actor::LoggedOut(u) | Actor::Deleted(u) => {
                        let i = dead_pick.min(dead.len() - 1);
                        let mut a = server.api();
                        a.token = if quoted { dead[i].0.token.clone().map(|t| format!("\"{t}\"")) } else { dead[i].0.token.clone() };
                        (a, format!("<dead:{u}>"), false)
                    }
                };
                // ---- choose target ----
                let (owner, db) = if !model.dbs.is_empty() && rng.chance(4, 5) {
                    let keys: Vec<&(String, String)> = model.dbs.keys().collect();
                    keys[rng.usize(keys.len())].clone()
                } else {
                    (USERS[rng.usize(USERS.len())].to_string(), DBS[rng.usize(DBS.len())].to_string())
                };
                let other = USERS[rng.usize(USERS.len())].to_string();
                let exists = model.dbs.contains_key(&(owner.clone(), db.clone()));
                let role = if valid { model.role(&who, &owner, &db) } else { None };
                let is_owner = valid && model.is_owner(&who, &owner, &db);
                let relation = if let Actor::LoggedOut(_) = &actor { "logged_out_token" } else if let Actor::Deleted(_) = &actor { "deleted_user_token" } else if !valid { "invalid_token" } else if who == "admin" { "server_admin" } else if is_owner { "owner" } else { match role { Some(Role::Admin) => "db_admin", Some(Role::Write) => "db_write", Some(Role::Read) => "db_read", None => "stranger" } };
                let at_least = |r: Role| valid && role.map(|x| x >= r).unwrap_or(false);
                // ---- choose endpoint, predict, execute ----
                let op = rng.below(24);
                let (name, permitted, status): (&str, bool, Result<u16, agdb_api::AgdbApiError>) = match op {
                    0 | 1 => ("db_add", valid && who == owner && !exists, api.db_add(&owner, &db, if rng.chance(1, 2) { DbKind::Memory } else { DbKind::Mapped }).await),
                    2 => ("db_backup", at_least(Role::Admin), api.db_backup(&owner, &db).await),
                    3 => ("db_restore", at_least(Role::Admin), api.db_restore(&owner, &db).await),
                    4 => ("db_clear", at_least(Role::Admin), api.db_clear(&owner, &db, DbResource::Db).await.map(|x| x.0)),
                    5 => ("db_convert", at_least(Role::Admin), api.db_convert(&owner, &db, DbKind::Memory).await),
                    6 => {
                        let new_db = format!("copy{}", rng.below(3));
                        let free = !model.dbs.contains_key(&(who.clone(), new_db.clone()));
                        ("db_copy", at_least(Role::Read) && free, api.db_copy(&owner, &db, &new_db).await)
                    }
                    7 => ("db_delete", is_owner, api.db_delete(&owner, &db).await),
                    8 => ("db_optimize", at_least(Role::Write), api.db_optimize(&owner, &db).await.map(|x| x.0)),
                    9 | 10 => ("db_exec_mut_mutating", at_least(Role::Write), api.db_exec_mut(&owner, &db, &mutating).await.map(|x| x.0)),
                    11 => ("db_exec_mut_reading", at_least(Role::Write), api.db_exec_mut(&owner, &db, &reading).await.map(|x| x.0)),
                    12 => ("db_exec_reading", at_least(Role::Read), api.db_exec(&owner, &db, &reading).await.map(|x| x.0)),
                    13 => ("db_exec_with_mutating_query", false, api.db_exec(&owner, &db, &mutating).await.map(|x| x.0)),
                    14 => ("db_audit", at_least(Role::Read), api.db_audit(&owner, &db).await.map(|x| x.0)),
                    15 | 16 => {
                        let r = [Role::Read, Role::Write, Role::Admin][rng.usize(3)];
                        // changing the owner's own role is left out (not specified)
                        if other == owner {
                            continue;
                        }
                        let s = api.db_user_add(&owner, &db, &other, r.api()).await;
                        let p = at_least(Role::Admin) && model.users.contains_key(&other);
                        if p && ok(s.as_ref().map(|x| *x).map_err(|e| agdb_api::AgdbApiError { status: e.status, description: String::new() })).0 {
                            model.dbs.get_mut(&(owner.clone(), db.clone())).map(|m| m.insert(other.clone(), r));
                        }
                        ("db_user_add", p, s)
                    }
                    17 => {
                        if other == owner {
                            continue;
                        }
                        let s = api.db_user_remove(&owner, &db, &other).await;
                        // an admin may remove anyone but the owner; a user may relinquish their own role
                        let p = at_least(Role::Admin) || (valid && who == other && role.is_some());
                        if p && ok(s.as_ref().map(|x| *x).map_err(|e| agdb_api::AgdbApiError { status: e.status, description: String::new() })).0 {
                            model.dbs.get_mut(&(owner.clone(), db.clone())).map(|m| m.remove(&other));
                        }
                        ("db_user_remove", p, s)
                    }
                    18 => ("db_user_list", at_least(Role::Read), api.db_user_list(&owner, &db).await.map(|x| x.0)),
                    19 => ("db_remove", is_owner, api.db_remove(&owner, &db).await),
                    20 => {
                        let new_db = format!("ren{}", rng.below(3));
                        let free = !model.dbs.contains_key(&(owner.clone(), new_db.clone()));
                        ("db_rename", is_owner && (free || new_db == db), api.db_rename(&owner, &db, &new_db).await)
                    }
                    21 => ("admin_user_add", valid && who == "admin" && !model.users.contains_key("erin"), api.admin_user_add("erin", "erin_password1").await),
                    22 => ("admin_db_user_add", valid && who == "admin" && exists && other != owner && model.users.contains_key(&other), {
                        let s = api.admin_db_user_add(&owner, &db, &other, DbUserRole::Read).await;
                        if valid && who == "admin" && exists && other != owner && model.users.contains_key(&other) && matches!(&s, Ok(x) if (200..300).contains(x)) {
                            model.dbs.get_mut(&(owner.clone(), db.clone())).map(|m| m.insert(other.clone(), Role::Read));
                        }
                        s
                    }),
                    _ => {
                        // logout of a live session: the token must stop working at once
                        if let Actor::User(u) = &actor {
                            if rng.chance(1, 3) {
                                let mut a = server.api();
                                a.token = if quoted { tokens[u].token.clone().map(|t| format!("\"{t}\"")) } else { tokens[u].token.clone() };
                                let old = {
                                    let mut o = server.api();
                                    o.token = tokens[u].token.clone();
                                    o
                                };
                                let s = a.user_logout().await;
                                if ok(s.as_ref().map(|x| *x).map_err(|e| agdb_api::AgdbApiError { status: e.status, description: String::new() })).0 {
                                    dead.push((old, Actor::LoggedOut(u.clone())));
                                    tokens.remove(u);
                                    // and log in again so the user stays in play
                                    let mut n = server.api();
                                    if ok(n.user_login(u, &model.users[u]).await).0 {
                                        tokens.insert(u.clone(), n);
                                    }
                                }
                                ("user_logout", true, s)
                            } else {
                                ("db_list", true, api.db_list().await.map(|x| x.0))
                            }
                        } else {
                            ("db_list", valid, api.db_list().await.map(|x| x.0))
                        }
                    }
                };
                let (success, code) = ok(status);
                rep.eval();
                progress(&format!("{name} actor={relation} step={step}"));
                rep.distinct_hash(tag(&format!("{name}|{relation}|{permitted}|{}", if success { "2xx" } else { "rejected" })));
                rep.count(if permitted { "requests_permitted_by_the_model" } else { "requests_not_permitted_by_the_model" });
                if !permitted {
                    rep.count(&format!("not_permitted_{relation}"));
                } else if success {
                    rep.count("permitted_requests_that_succeeded");
                }
                // ---- model update for permitted, successful requests ----
                if permitted && success {
                    let key = (owner.clone(), db.clone());
                    match name {
                        "db_add" => {
                            model.dbs.insert(key, BTreeMap::from([(owner.clone(), Role::Admin)]));
                        }
                        "db_delete" | "db_remove" => {
                            model.dbs.remove(&key);
                        }
                        "db_rename" | "db_copy" | "admin_user_add" => {
                            // resynchronise names from the server below
                        }
                        _ => {}
                    }
                }
                // ---- oracle ----
                let now = probe(&admin).await?;
                if !permitted {
                    if success {
                        let sig = format!("C24:unpermitted_request_succeeded:{name}:{relation}");
                        if fired.insert(sig.clone()) {
                            rep.violation(&sig, &format!("{name} on {owner}/{db} by {who} ({relation}) returned {code} although the permission table does not allow it"),
                                json!({"engine":"c24","case":case,"seed":args.u64("seed",1),"tier":args.str("tier","quick"),"step":step,"endpoint":name,"actor":relation}));
                        }
                    } else if now != last_probe {
                        let sig = format!("C24:rejected_request_changed_state:{name}:{relation}");
                        if fired.insert(sig.clone()) {
                            rep.violation(&sig, &format!("{name} on {owner}/{db} by {who} ({relation}) was rejected ({code}) but the server state changed:\n{last_probe}\n--->\n{now}"),
                                json!({"engine":"c24","case":case,"seed":args.u64("seed",1),"tier":args.str("tier","quick"),"step":step,"endpoint":name,"actor":relation}));
                        }
                    } else {
                        rep.count("unpermitted_requests_rejected_without_effect");
                    }
                }
                // role changes that returned 2xx must be visible
                if permitted && success && (name == "db_user_add" || name == "db_user_remove" || name == "admin_db_user_add") {
                    let want = model.role(&other, &owner, &db);
                    let line = format!("  role {other} ");
                    let in_db: Option<String> = now
                        .split("db ")
                        .find(|b| b.starts_with(&format!("{owner}/{db} ")))
                        .and_then(|b| b.lines().find(|l| l.starts_with(&line)).map(|l| l.to_string()));
                    let got = in_db.as_deref().map(|l| if l.ends_with("Admin") { Role::Admin } else if l.ends_with("Write") { Role::Write } else { Role::Read });
                    if got != want {
                        let sig = format!("C24:role_change_not_effective:{name}");
                        if fired.insert(sig.clone()) {
                            rep.violation(&sig, &format!("{name} {other} on {owner}/{db} returned {code}; expected role {want:?}, server lists {got:?}"),
                                json!({"engine":"c24","case":case,"seed":args.u64("seed",1),"tier":args.str("tier","quick"),"step":step}));
                        }
                        // adopt the server's view to keep going
                        if let Some(m) = model.dbs.get_mut(&(owner.clone(), db.clone())) {
                            match got {
                                Some(r) => m.insert(other.clone(), r),
                                None => m.remove(&other),
                            };
                        }
                    }
                }
                // resynchronise the set of databases and their roles for operations that create names
                if success && matches!(name, "db_rename" | "db_copy" | "admin_user_add") {
                    if name == "admin_user_add" {
                        model.users.insert("erin".into(), "erin_password1".into());
                    }
                    let (_, dbs) = admin.admin_db_list().await.map_err(|e| e.to_string())?;
                    let mut fresh = BTreeMap::new();
                    for d in dbs {
                        let (_, us) = admin.admin_db_user_list(&d.owner, &d.db).await.map_err(|e| e.to_string())?;
                        let mut m = BTreeMap::new();
                        for u in us {
                            m.insert(u.username.clone(), match u.role { DbUserRole::Admin => Role::Admin, DbUserRole::Write => Role::Write, DbUserRole::Read => Role::Read });
                        }
                        fresh.insert((d.owner.clone(), d.db.clone()), m);
                    }
                    model.dbs = fresh;
                }
                last_probe = now;
                // occasionally delete and re-create a user: the old token must be dead
                if step % 97 == 96 {
                    let u = USERS[rng.usize(USERS.len())].to_string();
                    if let Some(tok) = tokens.remove(&u) {
                        if ok(admin.admin_user_delete(&u).await).0 {
                            dead.push((tok, Actor::Deleted(u.clone())));
                            model.dbs.retain(|k, _| k.0 != u);
                            for m in model.dbs.values_mut() {
                                m.remove(&u);
                            }
                            let pw = format!("{u}_password2");
                            if ok(admin.admin_user_add(&u, &pw).await).0 {
                                model.users.insert(u.clone(), pw.clone());
                                let mut a = server.api();
                                if ok(a.user_login(&u, &pw).await).0 {
                                    tokens.insert(u.clone(), a);
                                }
                            }
                            rep.count("users_deleted_and_recreated");
                        } else {
                            tokens.insert(u, tok);
                        }
                        last_probe = probe(&admin).await?;
                    }
                }
            }
            if case == 0 {
                rep.sample(|| json!({"requests": requests, "final_state": last_probe.lines().take(12).collect::<Vec<_>>()}));
            }
            server.stop().await;
            Ok(())
        });
        drop(rt);
        if let Err(e) = r {
            rep.inconclusive(&format!("case {case}: {e}"));
        }
        let _ = std::fs::remove_dir_all(&dir);
    }
    fn finish(&self, args: &Args, rep: &mut Report) {
        rep.require("unpermitted_requests_rejected_without_effect", 200);
        rep.require("requests_permitted_by_the_model", 200);
        rep.require("permitted_requests_that_succeeded", 100);
        if args.u64("expiry", if args.thorough() { 1 } else { 0 }) == 1 {
            rep.require("requests_with_an_expired_token", 10);
        }
        for r in ["not_permitted_invalid_token", "not_permitted_logged_out_token", "not_permitted_stranger", "not_permitted_db_read", "not_permitted_db_write"] {
            rep.require(r, 10);
        }
        let _ = std::fs::remove_dir_all(args.str("scratch", "/verif/scratch/c24"));
    }
}

// ---------------------------------------------------------------------------
// C25
// ---------------------------------------------------------------------------

/// the twin's own implementation of result injection (":i" aliases)
fn inject_ids(ids: &mut Vec<QueryId>, results: &[QueryResult]) -> Result<(), String> {
    for i in (0..ids.len()).rev() {
        if let QueryId::Alias(a) = &ids[i] {
            if let Some(n) = a.strip_prefix(':').and_then(|x| x.parse::<usize>().ok()) {
                let r = results.get(n).ok_or("result index out of bounds")?;
                let new: Vec<QueryId> = r.elements.iter().map(|e| QueryId::Id(e.id)).collect();
                ids.splice(i..i + 1, new);
            }
        }
    }
    Ok(())
}

fn inject_qids(ids: &mut QueryIds, results: &[QueryResult]) -> Result<(), String> {
    match ids {
        QueryIds::Ids(v) => inject_ids(v, results),
        QueryIds::Search(s) => {
            for id in [&mut s.origin, &mut s.destination] {
                if let QueryId::Alias(a) = id {
                    if let Some(n) = a.strip_prefix(':').and_then(|x| x.parse::<usize>().ok()) {
                        let r = results.get(n).ok_or("result index out of bounds")?;
                        *id = QueryId::Id(r.elements.first().ok_or("no element in the result")?.id);
                    }
                }
            }
            Ok(())
        }
    }
}

fn is_mutating(q: &QueryType) -> bool {
    matches!(
        q,
        QueryType::InsertAlias(_) | QueryType::InsertEdges(_) | QueryType::InsertIndex(_) | QueryType::InsertNodes(_) | QueryType::InsertValues(_)
            | QueryType::Remove(_) | QueryType::RemoveAliases(_) | QueryType::RemoveIndex(_) | QueryType::RemoveValues(_)
    )
}

/// runs the batch on the twin inside one transaction; Err = the batch fails (and nothing is applied)
fn twin_exec(db: &mut DbMemory, batch: &[QueryType], allow_mutating: bool) -> Result<(Vec<QueryResult>, Vec<QueryType>), String> {
    db.transaction_mut(|t| -> Result<(Vec<QueryResult>, Vec<QueryType>), agdb::DbError> {
        let mut results: Vec<QueryResult> = vec![];
        let mut audited = vec![];
        let fail = |s: String| agdb::DbError::from(std::io::Error::other(s));
        for (pos, q) in batch.iter().enumerate() {
            let mut q = q.clone();
            let mutated_before = !audited.is_empty();
            let fail = move |s: String| fail(format!("@{pos}:{mutated_before}:{s}"));
            if is_mutating(&q) && !allow_mutating {
                return Err(fail("mutable query not allowed".to_string()));
            }
            let r = match &mut q {
                QueryType::InsertNodes(x) => {
                    inject_qids(&mut x.ids, &results).map_err(fail)?;
                    t.exec_mut(&*x)
                }
                QueryType::InsertEdges(x) => {
                    inject_qids(&mut x.ids, &results).map_err(fail)?;
                    inject_qids(&mut x.from, &results).map_err(fail)?;
                    inject_qids(&mut x.to, &results).map_err(fail)?;
                    t.exec_mut(&*x)
                }
                QueryType::InsertValues(x) => {
                    inject_qids(&mut x.ids, &results).map_err(fail)?;
                    t.exec_mut(&*x)
                }
                QueryType::InsertAlias(x) => {
                    inject_qids(&mut x.ids, &results).map_err(fail)?;
                    t.exec_mut(&*x)
                }
                QueryType::InsertIndex(x) => t.exec_mut(&*x),
                QueryType::RemoveIndex(x) => t.exec_mut(&*x),
                QueryType::RemoveAliases(x) => t.exec_mut(&*x),
                QueryType::Remove(x) => {
                    inject_qids(&mut x.0, &results).map_err(fail)?;
                    t.exec_mut(&*x)
                }
                QueryType::RemoveValues(x) => {
                    inject_qids(&mut x.0.ids, &results).map_err(fail)?;
                    t.exec_mut(&*x)
                }
                QueryType::SelectValues(x) => {
                    inject_qids(&mut x.ids, &results).map_err(fail)?;
                    t.exec(&*x)
                }
                QueryType::Search(x) => {
                    let mut ids = QueryIds::Search(x.clone());
                    inject_qids(&mut ids, &results).map_err(fail)?;
                    if let QueryIds::Search(s) = ids {
                        *x = s;
                    }
                    t.exec(&*x)
                }
                QueryType::SelectNodeCount(x) => t.exec(&*x),
                QueryType::SelectAllAliases(x) => t.exec(&*x),
                QueryType::SelectIndexes(x) => t.exec(&*x),
                _ => return Err(fail("query kind not used by the generator".to_string())),
            }
            .map_err(|e| if e.description.starts_with('@') { e } else { fail(e.description) })?;
            if is_mutating(&q) {
                audited.push(q.clone());
            }
            results.push(r);
        }
        Ok((results, audited))
    })
    .map_err(|e| e.description)
}

fn fingerprint_queries() -> Vec<QueryType> {
    vec![
        QueryBuilder::select().search().elements().query().into(),
        QueryBuilder::select().aliases().query().into(),
        QueryBuilder::select().indexes().query().into(),
        QueryBuilder::select().node_count().query().into(),
    ]
}

fn gen_batch(rng: &mut Rng, twin: &DbMemory) -> Vec<QueryType> {
    let n = 1 + rng.usize(6);
    let mut b: Vec<QueryType> = vec![];
    let node_count = twin.exec(QueryBuilder::select().node_count().query()).map(|r| r.result).unwrap_or(0);
    for i in 0..n {
        let q: QueryType = match rng.below(21) {
            // fails while the alias does not exist, would succeed if the batch were run again after a later batch created it
            19 | 20 => {
                let a = format!("a{}", rng.below(6));
                QueryBuilder::insert().edges().from(a.clone()).to(a).query().into()
            }
            // failing read-only queries (also as the last query of a batch, after all its mutations)
            16 => QueryBuilder::select().ids("alias_that_does_not_exist").query().into(),
            17 => QueryBuilder::select().ids(format!(":{}", i + 2 + rng.usize(3))).query().into(),
            18 => QueryBuilder::search().from("alias_that_does_not_exist").query().into(),
            0 | 1 => QueryBuilder::insert().nodes().count(1 + rng.below(2)).values_uniform([("k", rng.below(5) as i64).into()]).query().into(),
            2 => QueryBuilder::insert().nodes().aliases(format!("a{}", rng.below(6))).query().into(),
            3 if i > 0 => {
                // edges between the results of two earlier queries of this batch
                let a = rng.usize(i);
                let c = rng.usize(i);
                QueryBuilder::insert().edges().from(format!(":{a}")).to(format!(":{c}")).query().into()
            }
            4 if i > 0 => QueryBuilder::insert().values([[("tagged", rng.below(9) as i64).into()]]).ids(format!(":{}", rng.usize(i))).query().into(),
            5 if i > 0 => QueryBuilder::remove().ids(format!(":{}", rng.usize(i))).query().into(),
            6 if i > 0 => QueryBuilder::select().ids(format!(":{}", rng.usize(i))).query().into(),
            7 => QueryBuilder::select().node_count().query().into(),
            8 => QueryBuilder::search().elements().query().into(),
            9 => QueryBuilder::insert().index(format!("ix{}", rng.below(3))).query().into(),
            10 => QueryBuilder::remove().index(format!("ix{}", rng.below(3))).query().into(),
            11 => QueryBuilder::remove().aliases(format!("a{}", rng.below(6))).query().into(),
            // failing queries
            12 => QueryBuilder::insert().edges().from(9_999).to(1).query().into(),
            13 => QueryBuilder::insert().values([[("x", 1).into()]]).ids(format!(":{}", i + 3 + rng.usize(3))).query().into(),
            14 if node_count > 0 => QueryBuilder::remove().ids(1 + rng.below(node_count + 2) as i64).query().into(),
            _ => QueryBuilder::insert().nodes().count(1).query().into(),
        };
        b.push(q);
    }
    // "insert, then read back" with a read that fails
    if rng.chance(1, 8) {
        b.push(QueryBuilder::select().ids("alias_that_does_not_exist").query().into());
    }
    b
}

struct C25;

impl CaseEngine for C25 {
    fn property(&self) -> &'static str {
        "C25"
    }
    fn rule(&self) -> String {
        "a real agdb_server process; batches of 1-7 queries (node / edge / value / alias / index inserts and removals, reads, failing queries at \
         every position, result references ':i' that are valid, out of range or refer to an empty result) submitted through exec_mut by the \
         owner and by a write-role user, and through exec (where a mutating query must fail the batch); oracle: an in-process DbMemory twin \
         with its own implementation of result injection runs the same batch in one transaction: the server's batch must succeed exactly \
         when the twin's does, with equal results; afterwards the server's fingerprint (all elements, aliases, indexes, node count) must \
         equal the twin's (so a failed batch leaves no trace), and the audit log must equal, in order and with the submitting user, the \
         mutating queries (in injected form) of exactly the applied batches. evaluations = batches; distinct = distinct (batch shape) hashes"
            .into()
    }
    fn cases(&self, args: &Args) -> usize {
        args.u64("n", if args.thorough() { 16 } else { 4 }) as usize
    }
    fn case_timeout_s(&self, _args: &Args) -> u64 {
        180
    }
    fn alloc_cap(&self) -> usize {
        0
    }
    fn run_case(&self, args: &Args, case: usize, rep: &mut Report, progress: &dyn Fn(&str)) {
        let seed = derive(args.u64("seed", 1), &[tag("C25"), case as u64]);
        let scratch = args.str("scratch", "/verif/scratch/c25");
        let dir = vcore::scratch_dir(&scratch, &format!("c{case}"));
        let batches = args.u64("batches", if args.thorough() { 600 } else { 150 });
        let rt = tokio::runtime::Builder::new_multi_thread().worker_threads(2).enable_all().build().expect("runtime");
        let r: Result<(), String> = rt.block_on(async {
            let server = Server::start(&dir, seed, false).await?;
            let admin = server.admin().await?;
            for (u, p) in [("owner", "owner_password1"), ("writer", "writer_password1")] {
                admin.admin_user_add(u, p).await.map_err(|e| e.to_string())?;
            }
            let mut owner = server.api();
            owner.user_login("owner", "owner_password1").await.map_err(|e| e.to_string())?;
            let mut writer = server.api();
            writer.user_login("writer", "writer_password1").await.map_err(|e| e.to_string())?;
            let kind = [DbKind::Memory, DbKind::Mapped, DbKind::File][case % 3];
            owner.db_add("owner", "db", kind).await.map_err(|e| e.to_string())?;
            owner.db_user_add("owner", "db", "writer", DbUserRole::Write).await.map_err(|e| e.to_string())?;
            let mut twin = DbMemory::new("twin").map_err(|e| e.description)?;
            let mut expected_audit: Vec<(String, QueryType)> = vec![];
            let mut rng = Rng::new(seed);
            let mut fired: BTreeSet<String> = BTreeSet::new();
            for bno in 0..batches {
                let batch = gen_batch(&mut rng, &twin);
                let via_exec = rng.chance(1, 6);
                let (api, user) = if rng.chance(1, 3) { (&writer, "writer") } else { (&owner, "owner") };
                progress(&format!("batch {bno} via_exec={via_exec}"));
                rep.eval();
                let shape: Vec<&str> = batch.iter().map(|q| if is_mutating(q) { "m" } else { "r" }).collect();
                rep.distinct_hash(tag(&format!("{}|{via_exec}|{user}", shape.join(""))));
                let expected = twin_exec(&mut twin, &batch, !via_exec);
                let got = if via_exec { api.db_exec("owner", "db", &batch).await } else { api.db_exec_mut("owner", "db", &batch).await };
                let ctx = json!({"engine":"c25","case":case,"seed":args.u64("seed",1),"tier":args.str("tier","quick"),"batch_number":bno,"via_exec":via_exec,
                    "batch": batch.iter().map(|q| format!("{q:?}").chars().take(200).collect::<String>()).collect::<Vec<_>>()});
                match (&expected, &got) {
                    (Ok((er, audited)), Ok((_, gr))) => {
                        rep.count("batches_applied");
                        if er != gr {
                            let sig = "C25:applied_batch_results_differ".to_string();
                            if fired.insert(sig.clone()) {
                                rep.violation(&sig, &format!("batch {bno}: server results {:?} twin results {:?}", short(gr), short(er)), ctx.clone());
                            }
                        }
                        for q in audited {
                            expected_audit.push((user.to_string(), q.clone()));
                        }
                    }
                    (Err(e), Err(_)) => {
                        rep.count("batches_failed");
                        if e.contains(":true:") {
                            rep.count("failed_batches_whose_earlier_queries_had_mutated");
                        }
                    }
                    (Ok(_), Err(e)) => {
                        let sig = "C25:batch_failed_on_server_but_is_valid".to_string();
                        if fired.insert(sig.clone()) {
                            rep.violation(&sig, &format!("batch {bno}: server {} {}", e.status, e.description), ctx.clone());
                        }
                        // keep the twin in step with the server: undo is impossible, so rebuild below
                        return Err("twin and server diverged".into());
                    }
                    (Err(e), Ok(_)) => {
                        let sig = "C25:batch_with_failing_query_was_applied".to_string();
                        if fired.insert(sig.clone()) {
                            rep.violation(&sig, &format!("batch {bno} succeeded on the server although it must fail ({e})"), ctx.clone());
                        }
                        return Err("twin and server diverged".into());
                    }
                }
                // all-or-nothing: fingerprints agree after every batch
                let fq = fingerprint_queries();
                let (_, sf) = admin.admin_db_exec("owner", "db", &fq).await.map_err(|e| e.to_string())?;
                let tf: Vec<QueryResult> = fq.iter().map(|q| match q {
                    QueryType::SelectValues(x) => twin.exec(x),
                    QueryType::SelectAllAliases(x) => twin.exec(x),
                    QueryType::SelectIndexes(x) => twin.exec(x),
                    QueryType::SelectNodeCount(x) => twin.exec(x),
                    _ => unreachable!(),
                }.unwrap_or_default()).collect();
                if sf != tf {
                    let what = if expected.is_err() { "failed_batch_left_changes" } else { "applied_batch_state_differs" };
                    let sig = format!("C25:{what}");
                    if fired.insert(sig.clone()) {
                        rep.violation(&sig, &format!("batch {bno}: server fingerprint {} twin fingerprint {}", short(&sf), short(&tf)), ctx.clone());
                    }
                    return Err("twin and server diverged".into());
                }
                // audit: exactly the mutating queries of the applied batches, in order, with the user
                if bno % 10 == 9 || bno + 1 == batches {
                    let (_, audit) = admin.admin_db_audit("owner", "db").await.map_err(|e| e.to_string())?;
                    let got: Vec<(String, QueryType)> = audit.0.iter().map(|a| (a.username.clone(), a.query.clone())).collect();
                    rep.count("audit_comparisons");
                    rep.max("max_audit_entries", got.len() as i64);
                    if got != expected_audit {
                        let i = got.iter().zip(&expected_audit).position(|(a, b)| a != b).unwrap_or(got.len().min(expected_audit.len()));
                        let what = if got.len() < expected_audit.len() && i == got.len() { "entries_missing" } else if got.len() > expected_audit.len() && i == expected_audit.len() { "extra_entries" } else { "entry_differs" };
                        let sig = format!("C25:audit_{what}");
                        if fired.insert(sig.clone()) {
                            rep.violation(&sig, &format!("after batch {bno}: audit has {} entries, expected {}; first difference at {i}: got {:?} expected {:?}", got.len(), expected_audit.len(),
                                got.get(i).map(|x| format!("{x:?}").chars().take(300).collect::<String>()), expected_audit.get(i).map(|x| format!("{x:?}").chars().take(300).collect::<String>())), ctx.clone());
                        }
                        return Err("audit diverged".into());
                    }
                }
            }
            if case == 0 {
                rep.sample(|| json!({"batches": batches, "audit_entries": expected_audit.len()}));
            }
            // restart: nothing is applied again and no failed batch becomes visible (file-backed kinds only: a memory
            // database does not outlive the process)
            let dir2 = server.dir.clone();
            server.stop().await;
            if !matches!(kind, DbKind::Memory) {
                let server = Server::start(&dir2, seed ^ 0x5eed, false).await?;
                let admin = server.admin().await?;
                tokio::time::sleep(Duration::from_millis(800)).await;
                let fq = fingerprint_queries();
                let (_, sf) = admin.admin_db_exec("owner", "db", &fq).await.map_err(|e| e.to_string())?;
                let tf: Vec<QueryResult> = fq.iter().map(|q| match q {
                    QueryType::SelectValues(x) => twin.exec(x),
                    QueryType::SelectAllAliases(x) => twin.exec(x),
                    QueryType::SelectIndexes(x) => twin.exec(x),
                    QueryType::SelectNodeCount(x) => twin.exec(x),
                    _ => unreachable!(),
                }.unwrap_or_default()).collect();
                let (_, audit) = admin.admin_db_audit("owner", "db").await.map_err(|e| e.to_string())?;
                let got: Vec<(String, QueryType)> = audit.0.iter().map(|a| (a.username.clone(), a.query.clone())).collect();
                rep.count("restarts_checked");
                let ctx = json!({"engine":"c25","case":case,"seed":args.u64("seed",1),"tier":args.str("tier","quick"),"after":"restart"});
                if sf != tf {
                    rep.violation("C25:state_differs_after_restart", &format!("server fingerprint {} twin fingerprint {}", short(&sf), short(&tf)), ctx.clone());
                }
                if got != expected_audit {
                    rep.violation("C25:audit_differs_after_restart", &format!("audit has {} entries after the restart, expected {}", got.len(), expected_audit.len()), ctx);
                }
                server.stop().await;
            }
            Ok(())
        });
        drop(rt);
        if let Err(e) = r {
            if !e.contains("diverged") {
                rep.inconclusive(&format!("case {case}: {e}"));
            }
        }
        let _ = std::fs::remove_dir_all(&dir);
    }
    fn finish(&self, args: &Args, rep: &mut Report) {
        rep.require("batches_applied", 50);
        rep.require("batches_failed", 50);
        rep.require("failed_batches_whose_earlier_queries_had_mutated", 20);
        rep.require("audit_comparisons", 5);
        rep.require("restarts_checked", 1);
        let _ = std::fs::remove_dir_all(args.str("scratch", "/verif/scratch/c25"));
    }
}

fn short(r: &[QueryResult]) -> String {
    format!("{:?}", r.iter().map(|x| (x.result, x.elements.iter().map(|e| e.id.0).collect::<Vec<_>>())).collect::<Vec<_>>()).chars().take(400).collect()
}

// ---------------------------------------------------------------------------
// C26
// ---------------------------------------------------------------------------

struct C26;

fn hostile_names() -> Vec<String> {
    let mut v: Vec<String> = [
        "plain", "..", ".", "...", "a/b", "../x", "../../x", "/abs", "/etc/agdb_x", ".hidden", "backups", "audit", "x.bak", "x.log", "x", ".x", "x.", " x", "x ",
        "a..b", "..a", "a..", "%2e%2e", "%2e%2e%2fx", "..%2fx", "%2fabs", "a%2fb", "%2e", "x%00y", "a\\b", "..\\x", "bob/x", "../bob/x", "..%2fbob%2fx", "..%2fbob%2fplain",
        "backups%2fx.bak", "audit%2fx.log", "backups%2fplain", "x.agdb", "x.v1", "x.v2", "x.bak.bak", "x..", "y", "y.bak", "y.log", "%2ey", "con", "nul", "x/", "/", "", "....//x", "a/../b", "a/./b",
        "%2e%2e%2f%2e%2e%2foutside_canary.txt", "..%2f..%2fagdb_server.yaml", "..%2fagdb_server.agdb", "%2e%2e%5cx",
    ]
    .iter()
    .map(|s| s.to_string())
    .collect();
    v.push("n".repeat(200));
    v
}

fn percent_decode(s: &str) -> String {
    let b = s.as_bytes();
    let mut out = vec![];
    let mut i = 0;
    while i < b.len() {
        if b[i] == b'%' && i + 2 < b.len() {
            if let Ok(v) = u8::from_str_radix(&s[i + 1..i + 3], 16) {
                out.push(v);
                i += 3;
                continue;
            }
        }
        out.push(b[i]);
        i += 1;
    }
    String::from_utf8_lossy(&out).to_string()
}

fn normalise(path: &str, base: &str) -> String {
    let full = if path.starts_with('/') { path.to_string() } else { format!("{base}/{path}") };
    let mut parts: Vec<&str> = vec![];
    for p in full.split('/') {
        match p {
            "" | "." => {}
            ".." => {
                parts.pop();
            }
            x => parts.push(x),
        }
    }
    format!("/{}", parts.join("/"))
}

#[derive(Debug, Clone)]
struct FsCall {
    name: String,
    paths: Vec<String>,
    mutating: bool,
    directory: bool,
    ok: bool,
    line: String,
}

/// the quoted strings of one strace line (with strace's escapes undone as far as needed)
fn quoted(line: &str) -> Vec<String> {
    let mut out = vec![];
    let mut cur: Option<String> = None;
    let mut it = line.chars().peekable();
    while let Some(c) = it.next() {
        match (&mut cur, c) {
            (None, '"') => cur = Some(String::new()),
            (Some(_), '"') => out.push(cur.take().unwrap_or_default()),
            (Some(s), '\\') => {
                if let Some(n) = it.next() {
                    match n {
                        'n' => s.push('\n'),
                        't' => s.push('\t'),
                        '0'..='7' => {
                            let mut v = n.to_digit(8).unwrap_or(0);
                            for _ in 0..2 {
                                if let Some(d) = it.peek().and_then(|d| d.to_digit(8)) {
                                    v = v * 8 + d;
                                    it.next();
                                }
                            }
                            s.push(char::from_u32(v).unwrap_or('?'));
                        }
                        other => s.push(other),
                    }
                }
            }
            (Some(s), c) => s.push(c),
            (None, _) => {}
        }
    }
    out
}

/// incremental reader of the strace log: joins `<unfinished ...>` / `resumed` pairs per pid
struct StraceReader {
    path: String,
    offset: u64,
    pending: BTreeMap<String, String>,
    partial: String,
}

impl StraceReader {
    fn new(path: &str) -> Self {
        Self {
            path: path.to_string(),
            offset: 0,
            pending: BTreeMap::new(),
            partial: String::new(),
        }
    }
    fn take(&mut self, cwd: &str) -> Vec<FsCall> {
        use std::io::Seek;
        let mut out = vec![];
        let Ok(mut f) = std::fs::File::open(&self.path) else { return out };
        if f.seek(std::io::SeekFrom::Start(self.offset)).is_err() {
            return out;
        }
        let mut buf = vec![];
        let _ = f.read_to_end(&mut buf);
        self.offset += buf.len() as u64;
        let text = format!("{}{}", self.partial, String::from_utf8_lossy(&buf));
        self.partial.clear();
        let mut lines: Vec<&str> = text.split('\n').collect();
        if let Some(last) = lines.pop() {
            self.partial = last.to_string();
        }
        for raw in lines {
            let Some((pid, rest)) = raw.split_once(' ') else { continue };
            let rest = rest.trim_start();
            let full: String = if let Some(head) = rest.strip_suffix(" <unfinished ...>") {
                self.pending.insert(pid.to_string(), head.to_string());
                continue;
            } else if rest.starts_with("<... ") {
                let tail = rest.split_once("resumed>").map(|x| x.1).unwrap_or("");
                format!("{}{}", self.pending.remove(pid).unwrap_or_default(), tail)
            } else {
                rest.to_string()
            };
            let Some(name) = full.split('(').next() else { continue };
            let name = name.trim().to_string();
            if !["open", "openat", "creat", "rename", "renameat", "renameat2", "unlink", "unlinkat", "mkdir", "mkdirat", "rmdir", "truncate", "ftruncate", "link", "linkat", "symlink", "symlinkat"].contains(&name.as_str()) {
                continue;
            }
            let ok = !full.contains(") = -1 ");
            let mut paths = quoted(&full);
            if name == "ftruncate" {
                // ftruncate(5</path/of/fd>, len)
                paths = full.split_once('<').and_then(|x| x.1.split_once('>')).map(|x| vec![x.0.to_string()]).unwrap_or_default();
            }
            let directory = full.contains("O_DIRECTORY") || name.starts_with("mkdir") || name == "rmdir" || (name == "unlinkat" && full.contains("AT_REMOVEDIR"));
            let mutating = match name.as_str() {
                "open" | "openat" => full.contains("O_WRONLY") || full.contains("O_RDWR") || full.contains("O_CREAT") || full.contains("O_TRUNC"),
                _ => true,
            };
            out.push(FsCall {
                name,
                paths: paths.iter().filter(|p| !p.is_empty()).map(|p| normalise(p, cwd)).collect(),
                mutating,
                directory,
                ok,
                line: raw.chars().take(300).collect(),
            });
        }
        out
    }
}

impl CaseEngine for C26 {
    fn property(&self) -> &'static str {
        "C26"
    }
    fn rule(&self) -> String {
        "a real agdb_server process under `strace -f` (file-system calls only); two users; database names from a corpus of path-like and special \
         strings (separators, dot segments, absolute paths, leading dots, names of the backup / audit directories and of their files, dotted \
         families x / x.bak / x.log / x.v1, trailing dots and spaces, percent-encoded forms) sent through a raw-socket HTTP client (URL libraries \
         would normalise them away) to add, exec_mut, backup, copy, rename, restore, clear, remove and delete for the three database kinds; the \
         strace log is read incrementally so that every file-system call is attributed to the request in flight; monitors: (1) every path the \
         server created, opened for writing, truncated, renamed, linked or unlinked for a request of user U on U's database is a server file \
         or lies inside data/U/; (2) every regular file a request touches (any open, rename, unlink, truncate) that is currently held by another \
         live database is a shared file (databases are tracked by identity across renames; files are released when they disappear or the database \
         is deleted / removed); (3) canary database, backup and audit files of the other user and canary files next to the data directory are \
         unchanged after every request. evaluations = requests; distinct = distinct (name class, operation, outcome) tuples"
            .into()
    }
    fn cases(&self, args: &Args) -> usize {
        args.u64("n", if args.thorough() { 12 } else { 3 }) as usize
    }
    fn case_timeout_s(&self, _args: &Args) -> u64 {
        180
    }
    fn alloc_cap(&self) -> usize {
        0
    }
    fn run_case(&self, args: &Args, case: usize, rep: &mut Report, progress: &dyn Fn(&str)) {
        let seed = derive(args.u64("seed", 1), &[tag("C26"), case as u64]);
        let scratch = args.str("scratch", "/verif/scratch/c26");
        let dir = vcore::scratch_dir(&scratch, &format!("c{case}"));
        let rt = tokio::runtime::Builder::new_multi_thread().worker_threads(2).enable_all().build().expect("runtime");
        let r: Result<(), String> = rt.block_on(async {
            let server = Server::start(&dir, seed, true).await?;
            let admin = server.admin().await?;
            for (u, p) in [("alice", "alice_password1"), ("bob", "bob_password1")] {
                admin.admin_user_add(u, p).await.map_err(|e| e.to_string())?;
            }
            let mut alice = server.api();
            alice.user_login("alice", "alice_password1").await.map_err(|e| e.to_string())?;
            let mut bob = server.api();
            bob.user_login("bob", "bob_password1").await.map_err(|e| e.to_string())?;
            // canaries
            let body = serde_json::to_string(&vec![QueryType::from(QueryBuilder::insert().nodes().count(1).query())]).map_err(|e| e.to_string())?;
            bob.db_add("bob", "plain", DbKind::Mapped).await.map_err(|e| e.to_string())?;
            bob.db_exec_mut("bob", "plain", &[QueryBuilder::insert().nodes().aliases("canary").values([[("v", 42).into()]]).query().into()]).await.map_err(|e| e.to_string())?;
            bob.db_backup("bob", "plain").await.map_err(|e| e.to_string())?;
            std::fs::write(format!("{dir}/outside_canary.txt"), "canary").map_err(|e| e.to_string())?;
            let canary = |dir: &str| -> String {
                let mut s = String::new();
                for f in ["outside_canary.txt", "agdb_server.yaml", "data/bob/plain", "data/bob/backups/plain.bak", "data/bob/audit/plain.log"] {
                    let p = format!("{dir}/{f}");
                    s.push_str(&format!("{f}:{:?};", std::fs::read(&p).ok().map(|b| (b.len(), vcore::rng::tag(&String::from_utf8_lossy(&b))))));
                }
                s
            };
            let canary0 = canary(&dir);
            let token = alice.token.clone().unwrap_or_default();
            let mut rng = Rng::new(seed);
            let names = hostile_names();
            let kinds = ["memory", "mapped", "file"];
            let data = normalise("data", &dir);
            let alice_root = format!("{data}/alice");
            let mut reader = StraceReader::new(&format!("{dir}/strace.log"));
            let _ = reader.take(&dir); // everything up to here belongs to the setup
            // live databases: (owner, decoded name) -> identity
            let mut live: BTreeMap<(String, String), u64> = BTreeMap::new();
            let admin_token = admin.token.clone().unwrap_or_default();
            let bob_token = bob.token.clone().unwrap_or_default();
            let plain_names = ["x", "y", "x.bak", "moved", "b", "plain2"];
            let mut next_identity = 1u64;
            // file -> identity that holds it
            let mut held: BTreeMap<String, u64> = BTreeMap::new();
            let mut accepted: BTreeSet<String> = BTreeSet::new();
            let mut fired: BTreeSet<String> = BTreeSet::new();
            let per_case = args.u64("requests", if args.thorough() { 500 } else { 220 });
            for step in 0..per_case {
                let use_live = !live.is_empty() && rng.chance(3, 5);
                let (src_owner, name) = if use_live { live.keys().nth(rng.usize(live.len())).cloned().unwrap_or_default() } else { ("alice".to_string(), names[rng.usize(names.len())].clone()) };
                // the server admin moves and copies databases between owners (plain names: the admin is not the attacker)
                let admin_op = use_live && (src_owner != "alice" || rng.chance(1, 4));
                // bob acts too: he copies databases alice shares with him into his own namespace, and adds memory databases
                let bob_copy = use_live && !admin_op && src_owner == "alice" && rng.chance(1, 5);
                let bob_add = !use_live && rng.chance(1, 8);
                let (src_owner, name) = if bob_add { ("bob".to_string(), plain_names[rng.usize(plain_names.len())].to_string()) } else { (src_owner, name) };
                let dst_owner = if admin_op { ["alice", "bob"][rng.usize(2)].to_string() } else if bob_copy || bob_add { "bob".to_string() } else { "alice".to_string() };
                // a live (decoded) name is only usable in a URL when it needs no encoding
                if use_live && name.chars().any(|c| !(c.is_ascii_alphanumeric() || "._-".contains(c))) {
                    continue;
                }
                let other = if admin_op || bob_copy { plain_names[rng.usize(plain_names.len())].to_string() } else { names[rng.usize(names.len())].clone() };
                let kind = kinds[(case + step as usize) % 3];
                let pick = if bob_copy { 200 } else if bob_add { 201 } else if admin_op { 100 + rng.below(5) } else if use_live { 3 + rng.below(10) } else { rng.below(10) };
                if bob_copy {
                    // alice shares the database with bob first (read role is enough to copy)
                    let _ = server.raw("PUT", &format!("/api/v1/db/alice/{name}/user/bob/add?db_role=read"), &token, "");
                    let _ = reader.take(&dir);
                }
                let (op, method, path, payload) = match pick {
                    200 => ("copy", "POST", format!("/api/v1/db/alice/{name}/copy?new_db={other}"), ""),
                    201 => ("add", "POST", format!("/api/v1/db/bob/{name}/add?db_type=memory"), ""),
                    100 | 101 => ("admin_rename", "POST", format!("/api/v1/admin/db/{src_owner}/{name}/rename?new_owner={dst_owner}&new_db={other}"), ""),
                    102 => ("admin_copy", "POST", format!("/api/v1/admin/db/{src_owner}/{name}/copy?new_owner={dst_owner}&new_db={other}"), ""),
                    103 => ("admin_exec_mut", "POST", format!("/api/v1/admin/db/{src_owner}/{name}/exec_mut"), body.as_str()),
                    104 => ("admin_backup", "POST", format!("/api/v1/admin/db/{src_owner}/{name}/backup"), ""),
                    0..=4 => ("add", "POST", format!("/api/v1/db/alice/{name}/add?db_type={kind}"), ""),
                    5 => ("backup", "POST", format!("/api/v1/db/alice/{name}/backup"), ""),
                    6 => ("copy", "POST", format!("/api/v1/db/alice/{name}/copy?new_db={other}"), ""),
                    7 => ("rename", "POST", format!("/api/v1/db/alice/{name}/rename?new_db={other}"), ""),
                    8 => ("restore", "POST", format!("/api/v1/db/alice/{name}/restore"), ""),
                    9 => ("clear", "POST", format!("/api/v1/db/alice/{name}/clear?resource=all"), ""),
                    10 => ("exec_mut", "POST", format!("/api/v1/db/alice/{name}/exec_mut"), body.as_str()),
                    11 => ("backup", "POST", format!("/api/v1/db/alice/{name}/backup"), ""),
                    _ => {
                        if rng.chance(1, 2) {
                            ("delete", "DELETE", format!("/api/v1/db/alice/{name}/delete"), "")
                        } else {
                            ("remove", "DELETE", format!("/api/v1/db/alice/{name}/remove"), "")
                        }
                    }
                };
                progress(&format!("{op} name={name:?} step={step}"));
                rep.eval();
                let (status, _text) = server.raw(method, &path, if admin_op { &admin_token } else if bob_copy || bob_add { &bob_token } else { &token }, payload)?;
                let success = (200..300).contains(&status);
                let dname = percent_decode(&name);
                let dother = percent_decode(&other);
                let class = if dname.split(['/', '\\']).any(|c| c == "..") { "dotdot" } else if dname.contains('/') || dname.contains('\\') { "separator" } else if dname.starts_with('.') { "leading_dot" } else if ["backups", "audit"].contains(&dname.as_str()) { "reserved" } else if dname.contains('.') { "dotted" } else { "other" };
                rep.distinct_hash(tag(&format!("{class}|{op}|{success}")));
                rep.count(if success { "requests_accepted" } else { "requests_rejected" });
                // ---- identities ----
                let this = live.get(&(src_owner.clone(), dname.clone())).copied();
                let mut acting: Vec<u64> = this.into_iter().collect();
                let mut created: Option<u64> = None;
                // the target (owner, name) was a live database already: the server must answer "db exists", not succeed
                let mut taken = false;
                if success {
                    match op {
                        "add" => {
                            created = Some(next_identity);
                            taken = live.contains_key(&(dst_owner.clone(), dname.clone()));
                            live.insert((dst_owner.clone(), dname.clone()), next_identity);
                            next_identity += 1;
                            accepted.insert(dname.clone());
                            rep.count(&format!("names_accepted_{class}"));
                        }
                        "copy" | "admin_copy" => {
                            created = Some(next_identity);
                            taken = live.contains_key(&(dst_owner.clone(), dother.clone()));
                            live.insert((dst_owner.clone(), dother.clone()), next_identity);
                            next_identity += 1;
                            accepted.insert(dother.clone());
                            rep.count(&format!("{op}_accepted"));
                        }
                        "rename" | "admin_rename" => {
                            if dother != dname || dst_owner != src_owner {
                                taken = live.contains_key(&(dst_owner.clone(), dother.clone()));
                                if let Some(i) = live.remove(&(src_owner.clone(), dname.clone())) {
                                    live.insert((dst_owner.clone(), dother.clone()), i);
                                    accepted.insert(dother.clone());
                                }
                            }
                            rep.count(&format!("{op}_accepted"));
                        }
                        _ => {}
                    }
                }
                if taken {
                    let sig = "C26:name_of_a_live_database_was_accepted_again".to_string();
                    if fired.insert(sig.clone()) {
                        rep.violation(&sig, &format!("{op} with name {name:?} / new name {other:?} for owner {dst_owner} returned {status} although {dst_owner} already has a live database of that name: two databases now share one set of files"),
                            json!({"engine":"c26","case":case,"seed":args.u64("seed",1),"tier":args.str("tier","quick"),"step":step,"op":op,"name":name,"other":other,"status":status}));
                    }
                }
                let transient = next_identity + 1_000_000;
                let primary = created.or(this).unwrap_or(transient);
                if let Some(c) = created {
                    acting.push(c);
                }
                acting.push(transient);
                let ctx = json!({"engine":"c26","case":case,"seed":args.u64("seed",1),"tier":args.str("tier","quick"),"step":step,"op":op,"name":name,"other":other,"status":status});
                // ---- (1) + (2): the file-system calls of this request ----
                let calls = reader.take(&dir);
                if !calls.is_empty() {
                    rep.count("requests_with_file_system_calls");
                }
                for c in calls.iter().filter(|c| c.ok) {
                    for p in &c.paths {
                        if p.starts_with("/proc") || p.starts_with("/dev") || p.starts_with("/sys") || p.starts_with("/etc") && !c.mutating {
                            continue;
                        }
                        let server_file = p == &data || p.starts_with(&format!("{data}/agdb_server")) || p.starts_with(&format!("{data}/.agdb_server")) || p.starts_with(&format!("{data}/cluster")) || p.starts_with(&format!("{data}/.cluster")) || p.ends_with("/agdb_server.log");
                        if server_file {
                            continue;
                        }
                        rep.add("file_system_calls_checked", 1);
                        let in_root = |o: &str| p == &format!("{data}/{o}") || p.starts_with(&format!("{data}/{o}/"));
                        let inside = in_root(&src_owner) || in_root(&dst_owner);
                        if c.mutating && !inside {
                            let sig = "C26:file_touched_outside_owner_directory".to_string();
                            if fired.insert(sig.clone()) {
                                rep.violation(&sig, &format!("{op} with name {name:?} (new name {other:?}, status {status}): the server modified {p}: {}", c.line), ctx.clone());
                            }
                        }
                        if !c.directory && inside {
                            if c.mutating && (p.ends_with("/backups") || p.ends_with("/audit")) && p.matches('/').count() == data.matches('/').count() + 2 {
                                let sig = "C26:database_file_replaces_reserved_directory".to_string();
                                if fired.insert(sig.clone()) {
                                    rep.violation(&sig, &format!("{op} with name {name:?} (status {status}) uses {p} as a file: {}", c.line), ctx.clone());
                                }
                            }
                            match held.get(p) {
                                Some(h) if !acting.contains(h) && live.values().any(|l| l == h) => {
                                    let holder = live.iter().find(|(_, v)| *v == h).map(|x| format!("{}/{}", x.0.0, x.0.1)).unwrap_or_default();
                                    let sig = "C26:two_databases_share_a_file".to_string();
                                    if fired.insert(sig.clone()) {
                                        rep.violation(&sig, &format!("{op} with name {name:?} (new name {other:?}, status {status}) touched {p} which belongs to the live database {holder:?}: {}", c.line), ctx.clone());
                                    }
                                }
                                Some(h) if acting.contains(h) => {}
                                _ => {
                                    // a request that creates a database from another one (copy) acts for two identities: what it
                                    // writes into the target owner's directory belongs to the new one, what it merely reads (or
                                    // touches elsewhere) to the source
                                    let owner_of_file = match (this, created) {
                                        (Some(t), Some(n)) => {
                                            if c.mutating && in_root(&dst_owner) {
                                                n
                                            } else {
                                                t
                                            }
                                        }
                                        _ => primary,
                                    };
                                    held.insert(p.clone(), owner_of_file);
                                }
                            }
                            rep.count("file_ownership_checks");
                        }
                    }
                }
                // release: files that no longer exist, files of transient and of ended identities
                if success && (op == "delete" || op == "remove") {
                    if let Some(i) = live.remove(&(src_owner.clone(), dname.clone())) {
                        held.retain(|_, v| *v != i);
                    }
                }
                held.retain(|p, v| *v != transient && std::path::Path::new(p).exists());
                // every file a live database holds lies inside the directory of its *current* owner
                for ((o, n), i) in &live {
                    for (p, _) in held.iter().filter(|(_, v)| *v == i) {
                        if !p.starts_with(&format!("{data}/{o}/")) {
                            let sig = "C26:database_file_outside_its_owners_directory".to_string();
                            if fired.insert(sig.clone()) {
                                rep.violation(&sig, &format!("after {op} (status {status}) the database {o}/{n} holds the file {p}, which is not inside {data}/{o}/"), ctx.clone());
                            }
                        }
                    }
                }
                rep.max("max_live_databases", live.len() as i64);
                rep.max("max_files_held", held.len() as i64);
                // ---- (3) canaries ----
                let c = canary(&dir);
                if c != canary0 {
                    let sig = format!("C26:other_users_files_changed:{op}");
                    if fired.insert(sig.clone()) {
                        rep.violation(&sig, &format!("{op} with name {name:?} (status {status}) changed files of another user or outside the data directory: {canary0} -> {c}"), ctx.clone());
                    }
                    break;
                }
            }
            // the model of live names must agree with the server (otherwise the attribution above is unreliable)
            let (_, dbs) = admin.admin_db_list().await.map_err(|e| e.to_string())?;
            let server_names: BTreeSet<(String, String)> = dbs.iter().filter(|d| !(d.owner == "bob" && d.db == "plain")).map(|d| (d.owner.clone(), d.db.clone())).collect();
            let model_names: BTreeSet<(String, String)> = live.keys().cloned().collect();
            if server_names != model_names {
                rep.inconclusive(&format!("case {case}: the harness lost track of the live databases: server {server_names:?} model {model_names:?}"));
            }
            if case == 0 {
                rep.sample(|| json!({"accepted_names": accepted.iter().take(40).collect::<Vec<_>>(), "files_held_at_the_end": held.keys().take(20).map(|p| p.replace(&dir, "")).collect::<Vec<_>>()}));
            }
            server.stop().await;
            Ok(())
        });
        drop(rt);
        if let Err(e) = r {
            rep.inconclusive(&format!("case {case}: {e}"));
        }
        let _ = std::fs::remove_dir_all(&dir);
    }
    fn finish(&self, args: &Args, rep: &mut Report) {
        rep.require("requests_accepted", 20);
        rep.require("requests_rejected", 20);
        rep.require("file_system_calls_checked", 100);
        rep.require("file_ownership_checks", 50);
        rep.require("admin_rename_accepted", 3);
        let _ = std::fs::remove_dir_all(args.str("scratch", "/verif/scratch/c26"));
    }
}

pub(crate) fn engine(name: &str, args: &Args) -> Option<Option<Report>> {
    match name {
        "c24" => Some(vcore::workers::drive(&C24, args)),
        "c25" => Some(vcore::workers::drive(&C25, args)),
        "c26" => Some(vcore::workers::drive(&C26, args)),
        _ => None,
    }
}
