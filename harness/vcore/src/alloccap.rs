//! Allocation-cap global allocator: the executable meaning of "attempts an
//! enormous allocation". A single request above the cap is recorded and refused
//! (null → `handle_alloc_error` → abort), which the worker's parent attributes to
//! the case in flight. The largest request seen is tracked so evidence can show
//! how far legitimate requests stay below the cap.

use std::alloc::GlobalAlloc;
use std::alloc::Layout;
use std::alloc::System;
use std::sync::atomic::AtomicUsize;
use std::sync::atomic::Ordering;

pub struct CapAlloc;

pub static CAP: AtomicUsize = AtomicUsize::new(usize::MAX);
pub static LARGEST: AtomicUsize = AtomicUsize::new(0);
pub static REFUSED: AtomicUsize = AtomicUsize::new(0);

pub fn set_cap(bytes: usize) {
    CAP.store(bytes, Ordering::SeqCst);
}
pub fn reset_largest() -> usize {
    LARGEST.swap(0, Ordering::SeqCst)
}
pub fn largest() -> usize {
    LARGEST.load(Ordering::SeqCst)
}

#[inline]
fn check(size: usize) -> bool {
    if size > LARGEST.load(Ordering::Relaxed) {
        LARGEST.fetch_max(size, Ordering::Relaxed);
    }
    if size > CAP.load(Ordering::Relaxed) {
        REFUSED.store(size, Ordering::SeqCst);
        // async-signal-safe style message for the parent
        let mut buf = [0u8; 64];
        let msg = b"ALLOCCAP size=";
        buf[..msg.len()].copy_from_slice(msg);
        let mut n = size;
        let mut digits = [0u8; 24];
        let mut d = 0;
        if n == 0 {
            digits[0] = b'0';
            d = 1;
        }
        while n > 0 {
            digits[d] = b'0' + (n % 10) as u8;
            n /= 10;
            d += 1;
        }
        let mut p = msg.len();
        for i in (0..d).rev() {
            buf[p] = digits[i];
            p += 1;
        }
        buf[p] = b'\n';
        p += 1;
        unsafe {
            libc_write(2, buf.as_ptr(), p);
        }
        return false;
    }
    true
}

unsafe extern "C" {
    #[link_name = "write"]
    fn libc_write(fd: i32, buf: *const u8, n: usize) -> isize;
}

unsafe impl GlobalAlloc for CapAlloc {
    unsafe fn alloc(&self, layout: Layout) -> *mut u8 {
        if !check(layout.size()) {
            return std::ptr::null_mut();
        }
        unsafe { System.alloc(layout) }
    }
    unsafe fn dealloc(&self, ptr: *mut u8, layout: Layout) {
        unsafe { System.dealloc(ptr, layout) }
    }
    unsafe fn alloc_zeroed(&self, layout: Layout) -> *mut u8 {
        if !check(layout.size()) {
            return std::ptr::null_mut();
        }
        unsafe { System.alloc_zeroed(layout) }
    }
    unsafe fn realloc(&self, ptr: *mut u8, layout: Layout, new_size: usize) -> *mut u8 {
        if !check(new_size) {
            return std::ptr::null_mut();
        }
        unsafe { System.realloc(ptr, layout, new_size) }
    }
}
