//! Crash-point recorder: an `fs_event` sink that logs every mutating file-system
//! call of FileStorage / WriteAheadLog with the logical context the harness sets,
//! and can materialise both files as they were just before call k.

use agdb::verif::FsEvent;
use agdb::verif::FsFile;
use agdb::verif::FsOp;
use std::cell::RefCell;
use std::rc::Rc;

#[derive(Clone, Debug)]
pub struct Logged {
    pub ev: FsEvent,
    /// harness-level step (operation / query index) in flight
    pub step: usize,
}

#[derive(Default, Debug)]
pub struct Recorder {
    pub events: Vec<Logged>,
    pub step: usize,
    pub enabled: bool,
    /// name of the data file as the storage currently knows it (follows rename events)
    pub path: Option<String>,
    /// when set: before every `snap_stride`-th mutating call the *real* files (looked up by name, the way a
    /// restarted process would find them) are copied to `<snap_dir>/<k>.data` / `<k>.wal`
    pub snap_dir: Option<String>,
    pub snap_stride: usize,
    pub snaps: Vec<usize>,
}

pub fn wal_of(path: &str) -> String {
    match path.rfind('/') {
        Some(i) => format!("{}/.{}", &path[..i], &path[i + 1..]),
        None => format!(".{path}"),
    }
}

pub type Shared = Rc<RefCell<Recorder>>;

pub fn install() -> Shared {
    let rec: Shared = Rc::new(RefCell::new(Recorder {
        enabled: true,
        ..Default::default()
    }));
    let r2 = rec.clone();
    agdb::verif::set_fs_sink(Box::new(move |ev| {
        let mut r = r2.borrow_mut();
        if r.enabled {
            let step = r.step;
            let k = r.events.len();
            if let (Some(path), Some(dir)) = (r.path.clone(), r.snap_dir.clone()) {
                if r.snap_stride > 0 && k % r.snap_stride == 0 {
                    let _ = std::fs::write(format!("{dir}/{k}.data"), std::fs::read(&path).unwrap_or_default());
                    let _ = std::fs::write(format!("{dir}/{k}.wal"), std::fs::read(wal_of(&path)).unwrap_or_default());
                    r.snaps.push(k);
                }
            }
            if let FsOp::Rename { to } = &ev.op {
                if ev.file == FsFile::Data {
                    r.path = Some(to.clone());
                }
            }
            r.events.push(Logged {
                ev: ev.clone(),
                step,
            });
        }
    }));
    rec
}

pub fn uninstall() {
    let _ = agdb::verif::take_fs_sink();
}

#[derive(Clone, Debug, Default, PartialEq, Eq)]
pub struct Images {
    pub data: Vec<u8>,
    pub wal: Vec<u8>,
}

pub fn apply(img: &mut Images, ev: &FsEvent) {
    let f = match ev.file {
        FsFile::Data => &mut img.data,
        FsFile::Wal => &mut img.wal,
    };
    match &ev.op {
        FsOp::WriteAt { pos, bytes } => {
            let pos = *pos as usize;
            if f.len() < pos + bytes.len() {
                f.resize(pos + bytes.len(), 0);
            }
            f[pos..pos + bytes.len()].copy_from_slice(bytes);
        }
        FsOp::Append { bytes } => f.extend_from_slice(bytes),
        FsOp::SetLen { len } => f.resize(*len as usize, 0),
        FsOp::Rename { .. } => {}
    }
}

/// applies only the first `n` bytes of a write (torn write)
pub fn apply_torn(img: &mut Images, ev: &FsEvent, n: usize) {
    let mut e = ev.clone();
    match &mut e.op {
        FsOp::WriteAt { bytes, .. } | FsOp::Append { bytes } => bytes.truncate(n),
        _ => {}
    }
    apply(img, &e);
}

pub fn write_images(dir: &str, name: &str, img: &Images) -> String {
    let data = format!("{dir}/{name}");
    let wal = format!("{dir}/.{name}");
    std::fs::write(&data, &img.data).expect("write data image");
    std::fs::write(&wal, &img.wal).expect("write wal image");
    data
}

pub fn read_images(path: &str) -> Images {
    let (dir, name) = match path.rfind('/') {
        Some(i) => (&path[..i], &path[i + 1..]),
        None => (".", path),
    };
    Images {
        data: std::fs::read(path).unwrap_or_default(),
        wal: std::fs::read(format!("{dir}/.{name}")).unwrap_or_default(),
    }
}

pub fn describe(ev: &FsEvent) -> String {
    let f = match ev.file {
        FsFile::Data => "data",
        FsFile::Wal => "wal",
    };
    match &ev.op {
        FsOp::WriteAt { pos, bytes } => format!("{f}.write_at({pos},{}B)@{}", bytes.len(), ev.site),
        FsOp::Append { bytes } => format!("{f}.append({}B)@{}", bytes.len(), ev.site),
        FsOp::SetLen { len } => format!("{f}.set_len({len})@{}", ev.site),
        FsOp::Rename { to } => format!("{f}.rename({to})@{}", ev.site),
    }
}
