//! Canonical dump of a database through public queries only (DESIGN §5.3), the
//! same structure computed from the reference model, and two comparators: exact
//! and the order-insensitive one of C13/C32.

use crate::model::Model;
use agdb::CountComparison;
use agdb::DbImpl;
use agdb::DbValue;
use agdb::QueryBuilder;
use agdb::StorageData;
use std::collections::BTreeMap;
use std::collections::BTreeSet;

#[derive(Clone, Debug, Default, PartialEq)]
pub struct DumpElem {
    pub from: i64,
    pub to: i64,
    pub values: Vec<(DbValue, DbValue)>,
    pub keys: Vec<DbValue>,
    pub key_count: u64,
}

#[derive(Clone, Debug, Default, PartialEq)]
pub struct Dump {
    pub node_count: u64,
    /// elements search order
    pub order: Vec<i64>,
    pub elems: BTreeMap<i64, DumpElem>,
    pub aliases: BTreeMap<String, i64>,
    /// node -> alias via select aliases ids(node)
    pub alias_of: BTreeMap<i64, Option<String>>,
    /// alias -> resolves to (via select ids(alias)); only for probed alias strings
    pub resolves: BTreeMap<String, Option<i64>>,
    /// node -> (edge_count, from, to)
    pub edge_counts: BTreeMap<i64, (u64, u64, u64)>,
    pub out: BTreeMap<i64, Vec<i64>>,
    pub inc: BTreeMap<i64, Vec<i64>>,
    pub indexes: BTreeMap<DbValue, u64>,
    /// keys in the order `select indexes` lists them (empty when unknown: the model does not fix it)
    pub index_order: Vec<DbValue>,
    pub index_hits: BTreeMap<(DbValue, DbValue), BTreeSet<i64>>,
}

/// what to probe besides what the database itself lists
#[derive(Clone, Debug, Default)]
pub struct Probe {
    pub aliases: Vec<String>,
    pub values: Vec<DbValue>,
}

fn err<T>(what: &str, e: impl std::fmt::Debug) -> Result<T, String> {
    Err(format!("{what}: {e:?}"))
}

pub fn dump<S: StorageData>(db: &DbImpl<S>, probe: &Probe) -> Result<Dump, String> {
    let mut d = Dump::default();
    d.node_count = match db.exec(QueryBuilder::select().node_count().query()) {
        Ok(r) => r.result,
        Err(e) => return err("select node_count", e),
    };
    let all = match db.exec(QueryBuilder::search().elements().query()) {
        Ok(r) => r,
        Err(e) => return err("search elements", e),
    };
    d.order = all.elements.iter().map(|e| e.id.0).collect();
    for id in d.order.clone() {
        let r = match db.exec(QueryBuilder::select().ids(id).query()) {
            Ok(r) => r,
            Err(e) => return err(&format!("select ids({id})"), e),
        };
        let e = r.elements.first().ok_or(format!("select ids({id}): empty result"))?;
        let keys = match db.exec(QueryBuilder::select().keys().ids(id).query()) {
            Ok(r) => r.elements.first().map(|e| e.values.iter().map(|kv| kv.key.clone()).collect()).unwrap_or_default(),
            Err(e) => return err(&format!("select keys ids({id})"), e),
        };
        let key_count = match db.exec(QueryBuilder::select().key_count().ids(id).query()) {
            Ok(r) => r.result,
            Err(e) => return err(&format!("select key_count ids({id})"), e),
        };
        d.elems.insert(
            id,
            DumpElem {
                from: if id < 0 { e.from.0 } else { 0 },
                to: if id < 0 { e.to.0 } else { 0 },
                values: e.values.iter().map(|kv| (kv.key.clone(), kv.value.clone())).collect(),
                keys,
                key_count,
            },
        );
        if id > 0 {
            let c = |q: agdb::SelectEdgeCountQuery| -> Result<u64, String> {
                match db.exec(q) {
                    Ok(r) => Ok(r.result),
                    Err(e) => err(&format!("select edge_count ids({id})"), e),
                }
            };
            d.edge_counts.insert(
                id,
                (
                    c(QueryBuilder::select().edge_count().ids(id).query())?,
                    c(QueryBuilder::select().edge_count_from().ids(id).query())?,
                    c(QueryBuilder::select().edge_count_to().ids(id).query())?,
                ),
            );
            let o = match db.exec(
                QueryBuilder::search()
                    .from(id)
                    .where_()
                    .distance(CountComparison::Equal(1))
                    .query(),
            ) {
                Ok(r) => r.elements.iter().map(|e| e.id.0).collect(),
                Err(e) => return err(&format!("search from({id}) distance 1"), e),
            };
            d.out.insert(id, o);
            let i = match db.exec(
                QueryBuilder::search()
                    .to(id)
                    .where_()
                    .distance(CountComparison::Equal(1))
                    .query(),
            ) {
                Ok(r) => r.elements.iter().map(|e| e.id.0).collect(),
                Err(e) => return err(&format!("search to({id}) distance 1"), e),
            };
            d.inc.insert(id, i);
            d.alias_of.insert(
                id,
                match db.exec(QueryBuilder::select().aliases().ids(id).query()) {
                    Ok(r) => r
                        .elements
                        .first()
                        .and_then(|e| e.values.first())
                        .and_then(|kv| kv.value.string().ok().cloned()),
                    Err(_) => None,
                },
            );
        }
    }
    match db.exec(QueryBuilder::select().aliases().query()) {
        Ok(r) => {
            for e in r.elements {
                if let Some(kv) = e.values.first() {
                    let a = kv.value.string().cloned().unwrap_or_default();
                    if d.aliases.insert(a.clone(), e.id.0).is_some() {
                        return Err(format!("select aliases lists alias '{a}' twice"));
                    }
                }
            }
        }
        Err(e) => return err("select aliases", e),
    }
    let mut probe_aliases: BTreeSet<String> = probe.aliases.iter().cloned().collect();
    probe_aliases.extend(d.aliases.keys().cloned());
    for a in probe_aliases {
        if a.is_empty() {
            continue;
        }
        let r = db.exec(QueryBuilder::select().ids(a.as_str()).query());
        d.resolves.insert(
            a,
            match r {
                Ok(r) => r.elements.first().map(|e| e.id.0),
                Err(_) => None,
            },
        );
    }
    match db.exec(QueryBuilder::select().indexes().query()) {
        Ok(r) => {
            if let Some(e) = r.elements.first() {
                for kv in &e.values {
                    let n = match &kv.value {
                        DbValue::U64(n) => *n,
                        DbValue::I64(n) => *n as u64,
                        _ => 0,
                    };
                    d.index_order.push(kv.key.clone());
                    if d.indexes.insert(kv.key.clone(), n).is_some() {
                        return Err(format!("select indexes lists key {:?} twice", kv.key));
                    }
                }
            }
        }
        Err(e) => return err("select indexes", e),
    }
    let mut vals: BTreeSet<DbValue> = probe.values.iter().cloned().collect();
    for e in d.elems.values() {
        for (_, v) in &e.values {
            vals.insert(v.clone());
        }
    }
    for k in d.indexes.keys().cloned().collect::<Vec<_>>() {
        for v in &vals {
            match db.exec(QueryBuilder::search().index(k.clone()).value(v.clone()).query()) {
                Ok(r) => {
                    let ids: Vec<i64> = r.elements.iter().map(|e| e.id.0).collect();
                    let set: BTreeSet<i64> = ids.iter().copied().collect();
                    if set.len() != ids.len() {
                        return Err(format!("index search {k:?}={v:?} lists an element twice: {ids:?}"));
                    }
                    if !set.is_empty() {
                        d.index_hits.insert((k.clone(), v.clone()), set);
                    }
                }
                Err(e) => return err(&format!("search index {k:?} value {v:?}"), e),
            }
        }
    }
    Ok(d)
}

/// the dump the model predicts
pub fn expected(m: &Model, probe: &Probe) -> Dump {
    let mut d = Dump::default();
    d.node_count = m.node_count();
    d.order = m.by_magnitude();
    for (id, e) in &m.elems {
        d.elems.insert(
            *id,
            DumpElem {
                from: e.from,
                to: e.to,
                values: e.values.clone(),
                keys: e.values.iter().map(|(k, _)| k.clone()).collect(),
                key_count: e.values.len() as u64,
            },
        );
        if *id > 0 {
            d.edge_counts.insert(*id, m.edge_count(*id));
            d.out.insert(*id, m.out.get(id).cloned().unwrap_or_default());
            d.inc.insert(*id, m.inc.get(id).cloned().unwrap_or_default());
            d.alias_of.insert(*id, m.alias_of(*id));
        }
    }
    d.aliases = m.aliases.clone();
    let mut probe_aliases: BTreeSet<String> = probe.aliases.iter().cloned().collect();
    probe_aliases.extend(m.aliases.keys().cloned());
    for a in probe_aliases {
        if a.is_empty() {
            continue;
        }
        d.resolves.insert(a.clone(), m.aliases.get(&a).copied());
    }
    for k in &m.indexes {
        let mut n = 0u64;
        for (id, e) in &m.elems {
            for (kk, v) in &e.values {
                if kk == k {
                    n += 1;
                    d.index_hits.entry((k.clone(), v.clone())).or_default().insert(*id);
                }
            }
        }
        d.indexes.insert(k.clone(), n);
    }
    d
}

fn sorted<T: Ord + Clone>(v: &[T]) -> Vec<T> {
    let mut x = v.to_vec();
    x.sort();
    x
}

/// first differing observable (None = equal). `exact = false` ignores the order of an
/// element's properties and of a node's edges (what C13 / C32 allow to differ).
pub fn diff(a: &Dump, b: &Dump, exact: bool) -> Option<(String, String)> {
    if a.node_count != b.node_count {
        return Some(("node_count".into(), format!("{} vs {}", a.node_count, b.node_count)));
    }
    if a.order != b.order {
        return Some(("element_ids".into(), format!("{:?} vs {:?}", a.order, b.order)));
    }
    for (id, ea) in &a.elems {
        let Some(eb) = b.elems.get(id) else {
            return Some(("element_missing".into(), format!("{id}")));
        };
        if ea.from != eb.from || ea.to != eb.to {
            return Some((
                "edge_endpoints".into(),
                format!("{id}: {}->{} vs {}->{}", ea.from, ea.to, eb.from, eb.to),
            ));
        }
        let same = if exact {
            ea.values == eb.values
        } else {
            sorted(&ea.values) == sorted(&eb.values)
        };
        if !same {
            return Some((
                if sorted(&ea.values) == sorted(&eb.values) { "property_order" } else { "properties" }.into(),
                format!("{id}: {:?} vs {:?}", ea.values, eb.values),
            ));
        }
        let same_keys = if exact { ea.keys == eb.keys } else { sorted(&ea.keys) == sorted(&eb.keys) };
        if !same_keys {
            return Some(("keys".into(), format!("{id}: {:?} vs {:?}", ea.keys, eb.keys)));
        }
        if ea.key_count != eb.key_count {
            return Some(("key_count".into(), format!("{id}: {} vs {}", ea.key_count, eb.key_count)));
        }
    }
    if a.aliases != b.aliases {
        return Some(("aliases".into(), format!("{:?} vs {:?}", a.aliases, b.aliases)));
    }
    if a.alias_of != b.alias_of {
        return Some(("alias_of_node".into(), format!("{:?} vs {:?}", a.alias_of, b.alias_of)));
    }
    if a.resolves != b.resolves {
        return Some(("alias_resolution".into(), format!("{:?} vs {:?}", a.resolves, b.resolves)));
    }
    if a.edge_counts != b.edge_counts {
        return Some(("edge_counts".into(), format!("{:?} vs {:?}", a.edge_counts, b.edge_counts)));
    }
    for (n, oa) in &a.out {
        let ob = b.out.get(n).cloned().unwrap_or_default();
        let same = if exact { *oa == ob } else { sorted(oa) == sorted(&ob) };
        if !same {
            return Some((
                if sorted(oa) == sorted(&ob) { "outgoing_edge_order" } else { "outgoing_edges" }.into(),
                format!("node {n}: {oa:?} vs {ob:?}"),
            ));
        }
    }
    for (n, ia) in &a.inc {
        let ib = b.inc.get(n).cloned().unwrap_or_default();
        let same = if exact { *ia == ib } else { sorted(ia) == sorted(&ib) };
        if !same {
            return Some((
                if sorted(ia) == sorted(&ib) { "incoming_edge_order" } else { "incoming_edges" }.into(),
                format!("node {n}: {ia:?} vs {ib:?}"),
            ));
        }
    }
    if a.indexes != b.indexes {
        return Some(("index_listing".into(), format!("{:?} vs {:?}", a.indexes, b.indexes)));
    }
    if exact && !a.index_order.is_empty() && !b.index_order.is_empty() && a.index_order != b.index_order {
        return Some(("index_listing_order".into(), format!("{:?} vs {:?}", a.index_order, b.index_order)));
    }
    if a.index_hits != b.index_hits {
        for (k, va) in &a.index_hits {
            if b.index_hits.get(k) != Some(va) {
                return Some(("index_contents".into(), format!("{k:?}: {va:?} vs {:?}", b.index_hits.get(k))));
            }
        }
        for (k, vb) in &b.index_hits {
            if !a.index_hits.contains_key(k) {
                return Some(("index_contents".into(), format!("{k:?}: None vs {vb:?}")));
            }
        }
    }
    None
}

/// adopts the implementation's property order and edge order into the model when they
/// are permutations of the model's (allowed after a rollback); false if they are not
pub fn adopt_orders(m: &mut Model, d: &Dump) -> bool {
    for (id, e) in m.elems.iter_mut() {
        if let Some(de) = d.elems.get(id) {
            if sorted(&e.values) != sorted(&de.values) {
                return false;
            }
            e.values = de.values.clone();
        }
    }
    for (n, v) in m.out.iter_mut() {
        if let Some(dv) = d.out.get(n) {
            if sorted(v) != sorted(dv) {
                return false;
            }
            *v = dv.clone();
        }
    }
    for (n, v) in m.inc.iter_mut() {
        if let Some(dv) = d.inc.get(n) {
            if sorted(v) != sorted(dv) {
                return false;
            }
            *v = dv.clone();
        }
    }
    true
}
