//! Seeded, hostile history generator (DESIGN §5.2): few nodes, few keys, few
//! aliases, values biased to the 15/16-byte inline boundary, stale / reused /
//! missing ids, alias stealing, edge ids where node ids are required, bulk bursts.

use crate::model::Ids;
use crate::model::Kv;
use crate::model::Model;
use crate::model::MutQ;
use crate::model::QId;
use crate::model::Vals;
use crate::rng::Rng;
use agdb::Comparison;
use agdb::CountComparison;
use agdb::DbId;
use agdb::DbKeyOrder;
use agdb::DbValue;
use agdb::KeyValueComparison;
use agdb::QueryCondition;
use agdb::QueryConditionData;
use agdb::QueryConditionLogic;
use agdb::QueryConditionModifier;
use agdb::QueryId;
use agdb::SearchQuery;
use agdb::SearchQueryAlgorithm;

pub const ALIASES: [&str; 8] = ["a", "b", "c", "root", "users", "alias_of_16_bytes", "é", "z9"];

pub fn key_pool() -> Vec<DbValue> {
    vec![
        DbValue::from("k0"),
        DbValue::from("k1"),
        DbValue::from("k2"),
        DbValue::from("name"),
        DbValue::from(7_i64),
        DbValue::from("key_with_16_bytes"),
    ]
}

pub fn value_pool() -> Vec<DbValue> {
    vec![
        DbValue::from(0_i64),
        DbValue::from(1_i64),
        DbValue::from(-5_i64),
        DbValue::from(30_i64),
        DbValue::from(1_u64),
        DbValue::from(30_u64),
        DbValue::from(1.5_f64),
        DbValue::from(-0.0_f64),
        DbValue::from(""),
        DbValue::from("x"),
        DbValue::from("abc"),
        DbValue::from("fifteen_bytes_!"),
        DbValue::from("sixteen_bytes_!!"),
        DbValue::from("seventeen_bytes_!"),
        DbValue::from("a much longer string value that does not fit inline"),
        DbValue::from(vec![1_u8, 2, 3]),
        DbValue::from(vec![1_i64, 2, 3]),
        DbValue::from(vec![1_u64, 2]),
        DbValue::from(vec![0.5_f64, 2.5]),
        DbValue::from(vec!["ab".to_string(), "cd".to_string()]),
    ]
}

#[derive(Clone, Debug)]
pub struct GenCfg {
    /// weights: nodes, nodes_ids, edges, edges_ids, aliases, values, index, remove_index,
    /// remove, remove_aliases, remove_values
    pub w: [u32; 11],
    pub max_nodes: usize,
    /// probability (percent) of a deliberately hostile / invalid form
    pub hostile_pct: u64,
    pub allow_search_ids: bool,
    pub bursts: bool,
}

impl Default for GenCfg {
    fn default() -> Self {
        GenCfg {
            w: [14, 5, 16, 4, 8, 18, 3, 2, 12, 4, 8],
            max_nodes: 12,
            hostile_pct: 14,
            allow_search_ids: true,
            bursts: true,
        }
    }
}

pub struct Gen {
    pub rng: Rng,
    pub cfg: GenCfg,
    pub keys: Vec<DbValue>,
    pub values: Vec<DbValue>,
    /// ids that existed at some point (stale ids)
    pub ever: Vec<i64>,
}

impl Gen {
    pub fn new(seed: u64, cfg: GenCfg) -> Self {
        Gen {
            rng: Rng::new(seed),
            cfg,
            keys: key_pool(),
            values: value_pool(),
            ever: vec![],
        }
    }
    pub fn note(&mut self, m: &Model) {
        for id in m.elems.keys() {
            if !self.ever.contains(id) {
                self.ever.push(*id);
            }
        }
        if self.ever.len() > 200 {
            self.ever.drain(0..100);
        }
    }
    pub fn key(&mut self) -> DbValue {
        let i = self.rng.usize(self.keys.len());
        self.keys[i].clone()
    }
    pub fn value(&mut self) -> DbValue {
        let i = self.rng.usize(self.values.len());
        self.values[i].clone()
    }
    /// distinct keys within one list (C09 stipulates it)
    pub fn kvs(&mut self, max: usize) -> Vec<Kv> {
        let n = self.rng.usize(max + 1);
        let mut idx: Vec<usize> = (0..self.keys.len()).collect();
        self.rng.shuffle(&mut idx);
        idx.truncate(n.min(self.keys.len()));
        idx.into_iter()
            .map(|i| (self.keys[i].clone(), self.value()))
            .collect()
    }
    pub fn alias(&mut self) -> String {
        ALIASES[self.rng.usize(ALIASES.len())].to_string()
    }
    fn pick_node(&mut self, m: &Model) -> Option<i64> {
        let n = m.nodes();
        if n.is_empty() { None } else { Some(n[self.rng.usize(n.len())]) }
    }
    fn pick_edge(&mut self, m: &Model) -> Option<i64> {
        let n = m.edges();
        if n.is_empty() { None } else { Some(n[self.rng.usize(n.len())]) }
    }
    fn pick_elem(&mut self, m: &Model) -> Option<i64> {
        let n: Vec<i64> = m.elems.keys().copied().collect();
        if n.is_empty() { None } else { Some(n[self.rng.usize(n.len())]) }
    }
    /// a node reference: by id or by its alias
    fn node_ref(&mut self, m: &Model) -> QId {
        match self.pick_node(m) {
            Some(n) => {
                if let Some(a) = m.alias_of(n) {
                    if self.rng.chance(1, 3) {
                        return QId::Alias(a);
                    }
                }
                QId::Id(n)
            }
            None => QId::Id(1),
        }
    }
    fn elem_ref(&mut self, m: &Model) -> QId {
        match self.pick_elem(m) {
            Some(n) => QId::Id(n),
            None => QId::Id(1),
        }
    }
    /// stale (removed earlier), never-used or otherwise invalid id
    fn bad_ref(&mut self, m: &Model) -> QId {
        match self.rng.below(4) {
            0 => {
                let stale: Vec<i64> = self.ever.iter().copied().filter(|i| !m.exists(*i)).collect();
                if stale.is_empty() {
                    QId::Id(9999)
                } else {
                    QId::Id(stale[self.rng.usize(stale.len())])
                }
            }
            1 => QId::Id(-9999),
            2 => QId::Alias("no_such_alias".into()),
            _ => QId::Id(9999),
        }
    }
    fn hostile(&mut self) -> bool {
        self.rng.below(100) < self.cfg.hostile_pct
    }

    pub fn simple_search(&mut self, m: &Model) -> SearchQuery {
        let zero = QueryId::Id(DbId(0));
        let mut q = SearchQuery {
            algorithm: SearchQueryAlgorithm::BreadthFirst,
            origin: zero.clone(),
            destination: zero,
            limit: 0,
            offset: 0,
            order_by: vec![],
            conditions: vec![],
        };
        match self.rng.below(4) {
            0 => q.algorithm = SearchQueryAlgorithm::Elements,
            1 => {
                q.algorithm = SearchQueryAlgorithm::DepthFirst;
                q.origin = self.node_ref(m).to_agdb();
            }
            2 => q.destination = self.node_ref(m).to_agdb(),
            _ => q.origin = self.node_ref(m).to_agdb(),
        }
        let c = |data| QueryCondition {
            logic: QueryConditionLogic::And,
            modifier: QueryConditionModifier::None,
            data,
        };
        match self.rng.below(6) {
            0 => q.conditions.push(c(QueryConditionData::Node)),
            1 => q.conditions.push(c(QueryConditionData::Edge)),
            2 => {
                let k = self.key();
                q.conditions.push(c(QueryConditionData::Keys(vec![k])));
            }
            3 => {
                let k = self.key();
                let v = self.value();
                q.conditions.push(c(QueryConditionData::KeyValue(KeyValueComparison {
                    key: k,
                    value: Comparison::Equal(v),
                })));
            }
            _ => {}
        }
        if self.rng.chance(1, 5) {
            q.limit = self.rng.below(4);
        }
        if self.rng.chance(1, 6) && q.algorithm != SearchQueryAlgorithm::Elements {
            // offsets within what certainly exists are added by the C16 engine; here small
            q.offset = self.rng.below(2);
        }
        q
    }

    fn vals(&mut self, n: usize) -> Vals {
        match self.rng.below(4) {
            0 => Vals::None,
            1 | 2 => Vals::Single(self.kvs(3)),
            _ => Vals::Multi((0..n).map(|_| self.kvs(3)).collect()),
        }
    }

    pub fn next(&mut self, m: &Model) -> MutQ {
        self.note(m);
        let mut w = self.cfg.w;
        let nodes = m.nodes().len();
        if nodes == 0 {
            w = [10, 0, 0, 0, 0, 3, 1, 0, 0, 0, 0];
        } else if nodes >= self.cfg.max_nodes {
            w[0] = 1;
            w[8] *= 3;
        }
        if m.edges().is_empty() {
            w[3] = 0;
        }
        match self.rng.weighted(&w) {
            0 => {
                // insert nodes
                let burst = self.cfg.bursts && self.rng.chance(1, 60);
                let count = if burst { 70 + self.rng.below(80) } else { self.rng.below(4) };
                let mut aliases = vec![];
                if !burst && self.rng.chance(1, 3) {
                    for _ in 0..1 + self.rng.usize(2) {
                        aliases.push(self.alias());
                    }
                }
                if self.hostile() && self.rng.chance(1, 3) {
                    aliases.push(String::new());
                }
                let n = std::cmp::max(count as usize, aliases.len());
                let mut values = if burst { Vals::Single(self.kvs(2)) } else { self.vals(n) };
                if let Vals::Multi(mv) = &mut values {
                    if self.hostile() && !mv.is_empty() && !aliases.is_empty() {
                        mv.truncate(aliases.len().saturating_sub(1));
                    }
                }
                MutQ::InsertNodes {
                    count,
                    aliases,
                    values,
                }
            }
            1 => {
                let n = 1 + self.rng.usize(2);
                let mut ids: Vec<QId> = (0..n).map(|_| self.node_ref(m)).collect();
                if self.hostile() {
                    let i = self.rng.usize(ids.len());
                    ids[i] = if self.rng.chance(1, 2) {
                        self.bad_ref(m)
                    } else {
                        self.pick_edge(m).map(QId::Id).unwrap_or(QId::Id(-1))
                    };
                }
                let mut aliases = vec![];
                if self.rng.chance(1, 2) {
                    for _ in 0..1 + self.rng.usize(n) {
                        aliases.push(self.alias());
                    }
                }
                let values = match self.rng.below(3) {
                    0 => Vals::Single(self.kvs(3)),
                    _ => Vals::Multi((0..n).map(|_| self.kvs(3)).collect()),
                };
                MutQ::InsertNodesIds {
                    ids,
                    aliases,
                    values,
                }
            }
            2 => {
                let nf = 1 + self.rng.usize(3);
                let nt = if self.rng.chance(2, 3) { nf } else { 1 + self.rng.usize(3) };
                let mut from: Vec<QId> = (0..nf).map(|_| self.node_ref(m)).collect();
                let mut to: Vec<QId> = (0..nt).map(|_| self.node_ref(m)).collect();
                if self.rng.chance(1, 6) {
                    // self loop / parallel edges
                    to = from.clone();
                }
                if self.hostile() {
                    let bad = if self.rng.chance(1, 2) {
                        self.bad_ref(m)
                    } else {
                        self.pick_edge(m).map(QId::Id).unwrap_or(QId::Id(-1))
                    };
                    if self.rng.chance(1, 2) {
                        let i = self.rng.usize(from.len());
                        from[i] = bad;
                    } else {
                        let i = to.len() - 1;
                        to[i] = bad;
                    }
                }
                let each = self.rng.chance(1, 3);
                let count = if each || nf != to.len() { nf * to.len() } else { nf };
                let mut values = self.vals(count);
                if let Vals::Multi(mv) = &mut values {
                    if self.hostile() {
                        mv.pop();
                    }
                }
                MutQ::InsertEdges {
                    from,
                    to,
                    each,
                    values,
                }
            }
            3 => {
                let n = 1 + self.rng.usize(2);
                let mut ids: Vec<QId> = (0..n)
                    .map(|_| self.pick_edge(m).map(QId::Id).unwrap_or(QId::Id(-1)))
                    .collect();
                if self.hostile() {
                    ids[0] = if self.rng.chance(1, 2) { self.bad_ref(m) } else { self.node_ref(m) };
                }
                let values = match self.rng.below(2) {
                    0 => Vals::Single(self.kvs(3)),
                    _ => Vals::Multi((0..n).map(|_| self.kvs(3)).collect()),
                };
                MutQ::InsertEdgesIds { ids, values }
            }
            4 => {
                let n = 1 + self.rng.usize(2);
                let mut ids: Vec<QId> = (0..n).map(|_| self.node_ref(m)).collect();
                let mut aliases: Vec<String> = (0..n).map(|_| self.alias()).collect();
                if self.hostile() {
                    match self.rng.below(4) {
                        0 => aliases[0] = String::new(),
                        1 => ids[0] = self.pick_edge(m).map(QId::Id).unwrap_or(QId::Id(-1)),
                        2 => ids[0] = self.bad_ref(m),
                        _ => {
                            aliases.pop();
                        }
                    }
                }
                MutQ::InsertAliases { ids, aliases }
            }
            5 => {
                let use_search = self.cfg.allow_search_ids && self.rng.chance(1, 6);
                if use_search {
                    let s = self.simple_search(m);
                    return MutQ::InsertValues {
                        ids: Ids::Search(s),
                        values: Vals::Single(self.kvs(3)),
                    };
                }
                let n = 1 + self.rng.usize(3);
                let mut ids: Vec<QId> = (0..n)
                    .map(|_| if self.rng.chance(2, 3) { self.node_ref(m) } else { self.elem_ref(m) })
                    .collect();
                match self.rng.below(12) {
                    0 => ids[0] = QId::Id(0),
                    1 => ids[0] = QId::Alias(self.alias()),
                    _ => {}
                }
                if self.hostile() {
                    let i = self.rng.usize(ids.len());
                    ids[i] = match self.rng.below(3) {
                        0 => QId::Alias(String::new()),
                        _ => self.bad_ref(m),
                    };
                }
                let burst = self.cfg.bursts && self.rng.chance(1, 80);
                let mut values = match self.rng.below(3) {
                    0 => Vals::Multi((0..n).map(|_| self.kvs(4)).collect()),
                    _ => Vals::Single(self.kvs(4)),
                };
                if burst {
                    // many distinct integer keys on one element
                    let kv: Vec<Kv> = (0..70 + self.rng.below(70) as i64)
                        .map(|i| (DbValue::from(1000 + i), DbValue::from(i)))
                        .collect();
                    values = Vals::Single(kv);
                }
                if let Vals::Multi(mv) = &mut values {
                    if self.hostile() {
                        mv.pop();
                    }
                }
                MutQ::InsertValues {
                    ids: Ids::List(ids),
                    values,
                }
            }
            6 => MutQ::InsertIndex(self.key()),
            7 => MutQ::RemoveIndex(self.key()),
            8 => {
                if self.cfg.allow_search_ids && self.rng.chance(1, 8) {
                    let s = self.simple_search(m);
                    return MutQ::Remove(Ids::Search(s));
                }
                let n = 1 + self.rng.usize(3);
                let mut ids: Vec<QId> = (0..n)
                    .map(|_| match self.rng.below(3) {
                        0 => self.node_ref(m),
                        _ => self.elem_ref(m),
                    })
                    .collect();
                if self.hostile() {
                    ids.push(self.bad_ref(m));
                }
                MutQ::Remove(Ids::List(ids))
            }
            9 => {
                let n = 1 + self.rng.usize(2);
                MutQ::RemoveAliases((0..n).map(|_| self.alias()).collect())
            }
            _ => {
                let keys: Vec<DbValue> = (0..1 + self.rng.usize(2)).map(|_| self.key()).collect();
                if self.cfg.allow_search_ids && self.rng.chance(1, 6) {
                    let s = self.simple_search(m);
                    return MutQ::RemoveValues {
                        ids: Ids::Search(s),
                        keys,
                    };
                }
                let n = 1 + self.rng.usize(2);
                let mut ids: Vec<QId> = (0..n).map(|_| self.elem_ref(m)).collect();
                if self.hostile() {
                    ids.push(self.bad_ref(m));
                }
                MutQ::RemoveValues {
                    ids: Ids::List(ids),
                    keys,
                }
            }
        }
    }

    // ---- condition trees (C15, C17, C18) ----

    pub fn count_cmp(&mut self, max: u64) -> CountComparison {
        let n = self.rng.below(max + 1);
        match self.rng.below(6) {
            0 => CountComparison::Equal(n),
            1 => CountComparison::GreaterThan(n),
            2 => CountComparison::GreaterThanOrEqual(n),
            3 => CountComparison::LessThan(n),
            4 => CountComparison::LessThanOrEqual(n),
            _ => CountComparison::NotEqual(n),
        }
    }

    pub fn comparison(&mut self) -> Comparison {
        let v = self.value();
        match self.rng.below(11) {
            0 | 1 => Comparison::Equal(v),
            2 => Comparison::NotEqual(v),
            3 => Comparison::GreaterThan(v),
            4 => Comparison::GreaterThanOrEqual(v),
            5 => Comparison::LessThan(v),
            6 => Comparison::LessThanOrEqual(v),
            7 | 8 => Comparison::Contains(self.fragment()),
            9 => Comparison::StartsWith(self.fragment()),
            _ => Comparison::EndsWith(self.fragment()),
        }
    }

    fn fragment(&mut self) -> DbValue {
        match self.rng.below(8) {
            0 => DbValue::from("bytes"),
            1 => DbValue::from("a"),
            2 => DbValue::from(vec!["ab".to_string()]),
            3 => DbValue::from(1_i64),
            4 => DbValue::from(vec![1_i64, 2]),
            5 => DbValue::from(1_u64),
            6 => DbValue::from(0.5_f64),
            _ => DbValue::from(vec!["a".to_string(), "c".to_string()]),
        }
    }

    /// `control`: allow distance / beyond / not_beyond
    pub fn conditions(&mut self, m: &Model, depth: u32, control: bool, distance: bool) -> Vec<QueryCondition> {
        let n = 1 + self.rng.usize(3);
        let mut v = vec![];
        for _ in 0..n {
            let data = match self.rng.below(if depth > 0 { 11 } else { 10 }) {
                0 => QueryConditionData::Node,
                1 => QueryConditionData::Edge,
                2 => {
                    if distance {
                        QueryConditionData::Distance(self.count_cmp(5))
                    } else {
                        QueryConditionData::Node
                    }
                }
                3 => QueryConditionData::EdgeCount(self.count_cmp(4)),
                4 => QueryConditionData::EdgeCountFrom(self.count_cmp(3)),
                5 => QueryConditionData::EdgeCountTo(self.count_cmp(3)),
                6 => {
                    let k = 1 + self.rng.usize(3);
                    QueryConditionData::Ids((0..k).map(|_| self.elem_ref(m).to_agdb()).collect())
                }
                7 | 8 => QueryConditionData::KeyValue(KeyValueComparison {
                    key: self.key(),
                    value: self.comparison(),
                }),
                9 => QueryConditionData::Keys((0..1 + self.rng.usize(2)).map(|_| self.key()).collect()),
                _ => QueryConditionData::Where(self.conditions(m, depth - 1, control, distance)),
            };
            let modifier = match self.rng.below(10) {
                0 | 1 => QueryConditionModifier::Not,
                2 if control => QueryConditionModifier::Beyond,
                3 if control => QueryConditionModifier::NotBeyond,
                _ => QueryConditionModifier::None,
            };
            let logic = if self.rng.chance(1, 3) { QueryConditionLogic::Or } else { QueryConditionLogic::And };
            v.push(QueryCondition {
                logic,
                modifier,
                data,
            });
        }
        v
    }

    pub fn order(&mut self) -> Vec<DbKeyOrder> {
        let n = self.rng.usize(4);
        (0..n)
            .map(|_| {
                let k = self.key();
                if self.rng.chance(1, 2) { DbKeyOrder::Asc(k) } else { DbKeyOrder::Desc(k) }
            })
            .collect()
    }
}
