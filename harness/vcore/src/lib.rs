pub mod alloccap;
pub mod crash;
pub mod dump;
pub mod genq;
pub mod model;
pub mod panicmon;
pub mod report;
pub mod rng;
pub mod search_ref;
pub mod simlog;
pub mod workers;
pub mod wrap;

use std::collections::BTreeMap;

/// `--key value` argument parser
#[derive(Clone)]
pub struct Args {
    pub pos: Vec<String>,
    pub kv: BTreeMap<String, String>,
}

impl Args {
    pub fn parse(args: impl Iterator<Item = String>) -> Self {
        let mut pos = vec![];
        let mut kv = BTreeMap::new();
        let mut it = args.peekable();
        while let Some(a) = it.next() {
            if let Some(k) = a.strip_prefix("--") {
                let v = it.next().unwrap_or_default();
                kv.insert(k.to_string(), v);
            } else {
                pos.push(a);
            }
        }
        Args { pos, kv }
    }
    pub fn u64(&self, k: &str, d: u64) -> u64 {
        self.kv.get(k).and_then(|v| v.parse().ok()).unwrap_or(d)
    }
    pub fn str(&self, k: &str, d: &str) -> String {
        self.kv.get(k).cloned().unwrap_or(d.to_string())
    }
    pub fn thorough(&self) -> bool {
        self.str("tier", "quick") == "thorough"
    }
}

/// scratch directory for this process / thread
pub fn scratch_dir(base: &str, tag: &str) -> String {
    let d = format!("{base}/{tag}");
    let _ = std::fs::remove_dir_all(&d);
    std::fs::create_dir_all(&d).expect("create scratch dir");
    d
}

/// run `n` jobs on `workers` threads; each job gets its index
pub fn parallel<T: Send + 'static>(
    workers: usize,
    n: usize,
    f: impl Fn(usize) -> T + Send + Sync + 'static,
) -> Vec<T> {
    let f = std::sync::Arc::new(f);
    let next = std::sync::Arc::new(std::sync::atomic::AtomicUsize::new(0));
    let mut handles = vec![];
    for _ in 0..workers.max(1) {
        let f = f.clone();
        let next = next.clone();
        handles.push(std::thread::spawn(move || {
            let mut out = vec![];
            loop {
                let i = next.fetch_add(1, std::sync::atomic::Ordering::SeqCst);
                if i >= n {
                    break;
                }
                out.push((i, f(i)));
            }
            out
        }));
    }
    let mut all: Vec<(usize, T)> = vec![];
    for h in handles {
        all.extend(h.join().expect("worker thread panicked"));
    }
    all.sort_by_key(|x| x.0);
    all.into_iter().map(|x| x.1).collect()
}
