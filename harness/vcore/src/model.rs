//! Reference model of the observable database state (DESIGN §5.1) and the
//! semantic mutating queries the generators produce. The model never predicts
//! ids: it adopts the ids the implementation returns and checks what the
//! properties say about them (sign, not in use).

use crate::search_ref;
use agdb::DbId;
use agdb::DbKeyValue;
use agdb::DbValue;
use agdb::InsertAliasesQuery;
use agdb::InsertEdgesQuery;
use agdb::InsertIndexQuery;
use agdb::InsertNodesQuery;
use agdb::InsertValuesQuery;
use agdb::QueryId;
use agdb::QueryIds;
use agdb::QueryResult;
use agdb::QueryValues;
use agdb::RemoveAliasesQuery;
use agdb::RemoveIndexQuery;
use agdb::RemoveQuery;
use agdb::RemoveValuesQuery;
use agdb::SearchQuery;
use agdb::SelectValuesQuery;
use std::collections::BTreeMap;
use std::collections::BTreeSet;

pub type Kv = (DbValue, DbValue);

#[derive(Clone, Debug, PartialEq, Default)]
pub struct Elem {
    /// 0 for nodes
    pub from: i64,
    pub to: i64,
    pub values: Vec<Kv>,
}

#[derive(Clone, Debug, Default, PartialEq)]
pub struct Model {
    pub elems: BTreeMap<i64, Elem>,
    /// node -> outgoing edge ids, most recently connected first
    pub out: BTreeMap<i64, Vec<i64>>,
    /// node -> incoming edge ids, most recently connected first
    pub inc: BTreeMap<i64, Vec<i64>>,
    pub aliases: BTreeMap<String, i64>,
    pub indexes: BTreeSet<DbValue>,
}

#[derive(Clone, Debug, PartialEq)]
pub enum QId {
    Id(i64),
    Alias(String),
}

impl QId {
    pub fn to_agdb(&self) -> QueryId {
        match self {
            QId::Id(i) => QueryId::Id(DbId(*i)),
            QId::Alias(a) => QueryId::Alias(a.clone()),
        }
    }
}

#[derive(Clone, Debug, PartialEq)]
pub enum Vals {
    None,
    Single(Vec<Kv>),
    Multi(Vec<Vec<Kv>>),
}

#[derive(Clone, Debug, PartialEq)]
pub enum Ids {
    List(Vec<QId>),
    Search(SearchQuery),
}

/// Semantic mutating queries (each maps to exactly one agdb query struct).
#[derive(Clone, Debug, PartialEq)]
pub enum MutQ {
    InsertNodes { count: u64, aliases: Vec<String>, values: Vals },
    InsertNodesIds { ids: Vec<QId>, aliases: Vec<String>, values: Vals },
    InsertEdges { from: Vec<QId>, to: Vec<QId>, each: bool, values: Vals },
    InsertEdgesIds { ids: Vec<QId>, values: Vals },
    InsertAliases { ids: Vec<QId>, aliases: Vec<String> },
    InsertValues { ids: Ids, values: Vals },
    InsertIndex(DbValue),
    RemoveIndex(DbValue),
    Remove(Ids),
    RemoveAliases(Vec<String>),
    RemoveValues { ids: Ids, keys: Vec<DbValue> },
}

/// the concrete agdb query
#[derive(Clone, Debug, PartialEq)]
pub enum AQ {
    InsertNodes(InsertNodesQuery),
    InsertEdges(InsertEdgesQuery),
    InsertAliases(InsertAliasesQuery),
    InsertValues(InsertValuesQuery),
    InsertIndex(InsertIndexQuery),
    RemoveIndex(RemoveIndexQuery),
    Remove(RemoveQuery),
    RemoveAliases(RemoveAliasesQuery),
    RemoveValues(RemoveValuesQuery),
}

pub fn kvs(v: &[Kv]) -> Vec<DbKeyValue> {
    v.iter()
        .map(|(k, v)| DbKeyValue {
            key: k.clone(),
            value: v.clone(),
        })
        .collect()
}

fn qvals(v: &Vals) -> QueryValues {
    match v {
        Vals::None => QueryValues::Single(vec![]),
        Vals::Single(s) => QueryValues::Single(kvs(s)),
        Vals::Multi(m) => QueryValues::Multi(m.iter().map(|x| kvs(x)).collect()),
    }
}

fn qids(v: &[QId]) -> QueryIds {
    QueryIds::Ids(v.iter().map(|q| q.to_agdb()).collect())
}

fn ids_to_agdb(i: &Ids) -> QueryIds {
    match i {
        Ids::List(l) => qids(l),
        Ids::Search(s) => QueryIds::Search(s.clone()),
    }
}

impl MutQ {
    pub fn kind(&self) -> &'static str {
        match self {
            MutQ::InsertNodes { .. } => "insert_nodes",
            MutQ::InsertNodesIds { .. } => "insert_nodes_ids",
            MutQ::InsertEdges { .. } => "insert_edges",
            MutQ::InsertEdgesIds { .. } => "insert_edges_ids",
            MutQ::InsertAliases { .. } => "insert_aliases",
            MutQ::InsertValues { .. } => "insert_values",
            MutQ::InsertIndex(_) => "insert_index",
            MutQ::RemoveIndex(_) => "remove_index",
            MutQ::Remove(_) => "remove",
            MutQ::RemoveAliases(_) => "remove_aliases",
            MutQ::RemoveValues { .. } => "remove_values",
        }
    }
    pub fn to_agdb(&self) -> AQ {
        match self {
            MutQ::InsertNodes {
                count,
                aliases,
                values,
            } => AQ::InsertNodes(InsertNodesQuery {
                count: *count,
                values: qvals(values),
                aliases: aliases.clone(),
                ids: QueryIds::Ids(vec![]),
            }),
            MutQ::InsertNodesIds {
                ids,
                aliases,
                values,
            } => AQ::InsertNodes(InsertNodesQuery {
                count: 0,
                values: qvals(values),
                aliases: aliases.clone(),
                ids: qids(ids),
            }),
            MutQ::InsertEdges {
                from,
                to,
                each,
                values,
            } => AQ::InsertEdges(InsertEdgesQuery {
                from: qids(from),
                to: qids(to),
                ids: QueryIds::Ids(vec![]),
                values: qvals(values),
                each: *each,
            }),
            MutQ::InsertEdgesIds { ids, values } => AQ::InsertEdges(InsertEdgesQuery {
                from: QueryIds::Ids(vec![]),
                to: QueryIds::Ids(vec![]),
                ids: qids(ids),
                values: qvals(values),
                each: false,
            }),
            MutQ::InsertAliases { ids, aliases } => AQ::InsertAliases(InsertAliasesQuery {
                ids: qids(ids),
                aliases: aliases.clone(),
            }),
            MutQ::InsertValues { ids, values } => AQ::InsertValues(InsertValuesQuery {
                ids: ids_to_agdb(ids),
                values: qvals(values),
            }),
            MutQ::InsertIndex(k) => AQ::InsertIndex(InsertIndexQuery(k.clone())),
            MutQ::RemoveIndex(k) => AQ::RemoveIndex(RemoveIndexQuery(k.clone())),
            MutQ::Remove(ids) => AQ::Remove(RemoveQuery(ids_to_agdb(ids))),
            MutQ::RemoveAliases(a) => AQ::RemoveAliases(RemoveAliasesQuery(a.clone())),
            MutQ::RemoveValues { ids, keys } => AQ::RemoveValues(RemoveValuesQuery(SelectValuesQuery {
                keys: keys.clone(),
                ids: ids_to_agdb(ids),
            })),
        }
    }
}

impl AQ {
    pub fn exec<S: agdb::StorageData>(&self, db: &mut agdb::DbImpl<S>) -> Result<QueryResult, agdb::DbError> {
        match self {
            AQ::InsertNodes(q) => db.exec_mut(q),
            AQ::InsertEdges(q) => db.exec_mut(q),
            AQ::InsertAliases(q) => db.exec_mut(q),
            AQ::InsertValues(q) => db.exec_mut(q),
            AQ::InsertIndex(q) => db.exec_mut(q),
            AQ::RemoveIndex(q) => db.exec_mut(q),
            AQ::Remove(q) => db.exec_mut(q),
            AQ::RemoveAliases(q) => db.exec_mut(q),
            AQ::RemoveValues(q) => db.exec_mut(q),
        }
    }
    pub fn exec_tx<S: agdb::StorageData>(
        &self,
        t: &mut agdb::TransactionMut<S>,
    ) -> Result<QueryResult, agdb::DbError> {
        match self {
            AQ::InsertNodes(q) => t.exec_mut(q),
            AQ::InsertEdges(q) => t.exec_mut(q),
            AQ::InsertAliases(q) => t.exec_mut(q),
            AQ::InsertValues(q) => t.exec_mut(q),
            AQ::InsertIndex(q) => t.exec_mut(q),
            AQ::RemoveIndex(q) => t.exec_mut(q),
            AQ::Remove(q) => t.exec_mut(q),
            AQ::RemoveAliases(q) => t.exec_mut(q),
            AQ::RemoveValues(q) => t.exec_mut(q),
        }
    }
}

/// why the model says a query must fail
#[derive(Clone, Debug, PartialEq)]
pub struct MustFail(pub String);

/// what the monitor found wrong with a successful result
#[derive(Clone, Debug, PartialEq)]
pub struct Wrong {
    pub what: String,
    pub detail: String,
}

fn wrong(what: &str, detail: String) -> Wrong {
    Wrong {
        what: what.to_string(),
        detail,
    }
}

impl Model {
    pub fn is_node(&self, id: i64) -> bool {
        id > 0 && self.elems.contains_key(&id)
    }
    pub fn is_edge(&self, id: i64) -> bool {
        id < 0 && self.elems.contains_key(&id)
    }
    pub fn exists(&self, id: i64) -> bool {
        self.elems.contains_key(&id)
    }
    pub fn resolve(&self, q: &QId) -> Option<i64> {
        match q {
            QId::Id(i) => {
                if self.exists(*i) {
                    Some(*i)
                } else {
                    None
                }
            }
            QId::Alias(a) => self.aliases.get(a).copied(),
        }
    }
    pub fn resolve_agdb(&self, q: &QueryId) -> Option<i64> {
        match q {
            QueryId::Id(i) => {
                if self.exists(i.0) {
                    Some(i.0)
                } else {
                    None
                }
            }
            QueryId::Alias(a) => self.aliases.get(a).copied(),
        }
    }
    pub fn alias_of(&self, node: i64) -> Option<String> {
        self.aliases
            .iter()
            .find(|(_, n)| **n == node)
            .map(|(a, _)| a.clone())
    }
    pub fn nodes(&self) -> Vec<i64> {
        self.elems.keys().copied().filter(|i| *i > 0).collect()
    }
    pub fn edges(&self) -> Vec<i64> {
        self.elems.keys().copied().filter(|i| *i < 0).collect()
    }
    pub fn node_count(&self) -> u64 {
        self.nodes().len() as u64
    }
    pub fn edge_count(&self, node: i64) -> (u64, u64, u64) {
        let f = self.out.get(&node).map(|v| v.len()).unwrap_or(0) as u64;
        let t = self.inc.get(&node).map(|v| v.len()).unwrap_or(0) as u64;
        (f + t, f, t)
    }
    /// ids in elements-search order (increasing magnitude)
    pub fn by_magnitude(&self) -> Vec<i64> {
        let mut v: Vec<i64> = self.elems.keys().copied().collect();
        v.sort_by_key(|i| i.unsigned_abs());
        v
    }
    pub fn value(&self, id: i64, key: &DbValue) -> Option<&DbValue> {
        self.elems
            .get(&id)
            .and_then(|e| e.values.iter().find(|(k, _)| k == key).map(|(_, v)| v))
    }

    pub fn add_node(&mut self, id: i64) {
        self.elems.insert(id, Elem::default());
        self.out.insert(id, vec![]);
        self.inc.insert(id, vec![]);
    }
    pub fn add_edge(&mut self, id: i64, from: i64, to: i64) {
        self.elems.insert(
            id,
            Elem {
                from,
                to,
                values: vec![],
            },
        );
        self.out.entry(from).or_default().insert(0, id);
        self.inc.entry(to).or_default().insert(0, id);
    }
    fn remove_edge(&mut self, id: i64) {
        if let Some(e) = self.elems.remove(&id) {
            if let Some(v) = self.out.get_mut(&e.from) {
                v.retain(|x| *x != id);
            }
            if let Some(v) = self.inc.get_mut(&e.to) {
                v.retain(|x| *x != id);
            }
        }
    }
    /// removes an element; a node takes its incident edges and its alias along
    pub fn remove(&mut self, id: i64) -> bool {
        if !self.exists(id) {
            return false;
        }
        if id < 0 {
            self.remove_edge(id);
        } else {
            let mut incident: Vec<i64> = self.out.get(&id).cloned().unwrap_or_default();
            incident.extend(self.inc.get(&id).cloned().unwrap_or_default());
            for e in incident {
                self.remove_edge(e);
            }
            self.elems.remove(&id);
            self.out.remove(&id);
            self.inc.remove(&id);
            self.aliases.retain(|_, n| *n != id);
        }
        true
    }
    /// insert-or-replace: existing key replaced in place, new key appended
    pub fn set_value(&mut self, id: i64, k: &DbValue, v: &DbValue) {
        if let Some(e) = self.elems.get_mut(&id) {
            if let Some(slot) = e.values.iter_mut().find(|(kk, _)| kk == k) {
                slot.1 = v.clone();
            } else {
                e.values.push((k.clone(), v.clone()));
            }
        }
    }
    pub fn remove_key(&mut self, id: i64, k: &DbValue) -> bool {
        if let Some(e) = self.elems.get_mut(&id) {
            let n = e.values.len();
            e.values.retain(|(kk, _)| kk != k);
            return e.values.len() != n;
        }
        false
    }
    /// replaces the node's previous alias and takes the alias from any other holder
    pub fn set_alias(&mut self, node: i64, alias: &str) {
        self.aliases.retain(|_, n| *n != node);
        self.aliases.insert(alias.to_string(), node);
    }

    fn check_new_id(&self, id: i64, node: bool) -> Result<(), Wrong> {
        if node && id <= 0 {
            return Err(wrong("node_id_not_positive", format!("new node got id {id}")));
        }
        if !node && id >= 0 {
            return Err(wrong("edge_id_not_negative", format!("new edge got id {id}")));
        }
        if self.elems.keys().any(|k| k.unsigned_abs() == id.unsigned_abs()) {
            return Err(wrong(
                "new_id_in_use",
                format!("new element got id {id} whose slot is in use"),
            ));
        }
        Ok(())
    }

    /// Applies `q` to the model. `Err(MustFail)`: the documented semantics say the
    /// query fails and changes nothing (the model is left unchanged).
    /// `Ok(Err(Wrong))`: the implementation's successful result contradicts the model.
    /// `res` is the implementation's result when it returned Ok (ids are adopted from it);
    /// with `res == None` only the must-fail decision is computed on a scratch copy.
    pub fn apply(&mut self, q: &MutQ, res: Option<&QueryResult>) -> Result<Result<(), Wrong>, MustFail> {
        let backup = self.clone();
        let r = self.apply_inner(q, res);
        match &r {
            Err(_) | Ok(Err(_)) => *self = backup,
            Ok(Ok(())) => {
                if res.is_none() {
                    *self = backup;
                }
            }
        }
        r
    }

    fn apply_inner(&mut self, q: &MutQ, res: Option<&QueryResult>) -> Result<Result<(), Wrong>, MustFail> {
        let fail = |s: &str| Err(MustFail(s.to_string()));
        // ids handed out by the implementation, consumed in order
        let mut new_ids: Vec<i64> = vec![];
        let mut all_ids: Vec<i64> = vec![];
        if let Some(r) = res {
            all_ids = r.elements.iter().map(|e| e.id.0).collect();
            new_ids = all_ids.clone();
        }
        let have_res = res.is_some();
        let mut fake = -1_000_000i64; // placeholder ids when only deciding must-fail
        let mut next_new = |node: bool, model: &Model, pos: &mut usize| -> Result<i64, Wrong> {
            if have_res {
                let id = *new_ids.get(*pos).ok_or_else(|| {
                    wrong("too_few_result_elements", format!("result has {} elements", new_ids.len()))
                })?;
                *pos += 1;
                model.check_new_id(id, node)?;
                Ok(id)
            } else {
                fake -= 1;
                Ok(if node { -fake } else { fake })
            }
        };
        macro_rules! tri {
            ($e:expr) => {
                match $e {
                    Ok(v) => v,
                    Err(w) => return Ok(Err(w)),
                }
            };
        }
        match q {
            MutQ::InsertNodes {
                count,
                aliases,
                values,
            } => {
                let n = match values {
                    Vals::Multi(m) => {
                        if aliases.len() > m.len() {
                            return fail("aliases outnumber values");
                        }
                        m.len()
                    }
                    _ => std::cmp::max(*count as usize, aliases.len()),
                };
                if aliases.iter().any(|a| a.is_empty()) {
                    return fail("empty alias");
                }
                let mut pos = 0usize;
                let mut expect_ids = vec![];
                for i in 0..n {
                    let vals: &[Kv] = match values {
                        Vals::None => &[],
                        Vals::Single(s) => s,
                        Vals::Multi(m) => &m[i],
                    };
                    if let Some(a) = aliases.get(i) {
                        if let Some(node) = self.aliases.get(a).copied() {
                            // existing alias: amend its values
                            if have_res {
                                let got = all_ids.get(pos).copied().unwrap_or(0);
                                if got != node {
                                    return Ok(Err(wrong(
                                        "existing_alias_not_updated",
                                        format!("alias {a} names node {node} but result element {pos} is {got}"),
                                    )));
                                }
                                pos += 1;
                            }
                            for (k, v) in vals {
                                self.set_value(node, k, v);
                            }
                            expect_ids.push(node);
                            continue;
                        }
                    }
                    let id = tri!(next_new(true, self, &mut pos));
                    self.add_node(id);
                    if let Some(a) = aliases.get(i) {
                        self.set_alias(id, a);
                    }
                    for (k, v) in vals {
                        self.set_value(id, k, v);
                    }
                    expect_ids.push(id);
                }
                if let Some(r) = res {
                    if r.result != n as u64 || r.elements.len() != n {
                        return Ok(Err(wrong(
                            "insert_nodes_count",
                            format!("expected {n} nodes, result {} / {} elements", r.result, r.elements.len()),
                        )));
                    }
                }
            }
            MutQ::InsertNodesIds {
                ids,
                aliases,
                values,
            } => {
                let mut nodes = vec![];
                for q in ids {
                    match self.resolve(q) {
                        Some(n) if n > 0 => nodes.push(n),
                        Some(_) => return fail("insert nodes with ids: edge id"),
                        None => return fail("insert nodes with ids: missing id"),
                    }
                }
                if aliases.iter().any(|a| a.is_empty()) {
                    return fail("empty alias");
                }
                match values {
                    Vals::Multi(m) if m.len() != nodes.len() => {
                        return fail("values do not match ids");
                    }
                    _ => {}
                }
                if aliases.len() > nodes.len() {
                    return fail("aliases outnumber ids");
                }
                for (i, n) in nodes.iter().enumerate() {
                    let vals: &[Kv] = match values {
                        Vals::None => &[],
                        Vals::Single(s) => s,
                        Vals::Multi(m) => &m[i],
                    };
                    for (k, v) in vals {
                        self.set_value(*n, k, v);
                    }
                    if let Some(a) = aliases.get(i) {
                        self.set_alias(*n, a);
                    }
                }
                if let Some(r) = res {
                    let got: Vec<i64> = r.elements.iter().map(|e| e.id.0).collect();
                    if got != nodes {
                        return Ok(Err(wrong(
                            "insert_nodes_ids_result",
                            format!("expected ids {nodes:?} got {got:?}"),
                        )));
                    }
                }
            }
            MutQ::InsertEdges {
                from,
                to,
                each,
                values,
            } => {
                let mut f = vec![];
                let mut t = vec![];
                for q in from {
                    match self.resolve(q) {
                        Some(n) if n > 0 => f.push(n),
                        _ => return fail("edge origin is not an existing node"),
                    }
                }
                for q in to {
                    match self.resolve(q) {
                        Some(n) if n > 0 => t.push(n),
                        _ => return fail("edge destination is not an existing node"),
                    }
                }
                let pairs: Vec<(i64, i64)> = if *each || f.len() != t.len() {
                    f.iter()
                        .flat_map(|a| t.iter().map(move |b| (*a, *b)))
                        .collect()
                } else {
                    f.iter().copied().zip(t.iter().copied()).collect()
                };
                match values {
                    Vals::Multi(m) if m.len() != pairs.len() => {
                        return fail("values do not match edge count");
                    }
                    _ => {}
                }
                if pairs.is_empty() {
                    return fail("no edges requested (unspecified)");
                }
                let mut pos = 0usize;
                for (i, (a, b)) in pairs.iter().enumerate() {
                    let id = tri!(next_new(false, self, &mut pos));
                    self.add_edge(id, *a, *b);
                    let vals: &[Kv] = match values {
                        Vals::None => &[],
                        Vals::Single(s) => s,
                        Vals::Multi(m) => &m[i],
                    };
                    for (k, v) in vals {
                        self.set_value(id, k, v);
                    }
                }
                if let Some(r) = res {
                    if r.result != pairs.len() as u64 || r.elements.len() != pairs.len() {
                        return Ok(Err(wrong(
                            "insert_edges_count",
                            format!("expected {} edges, result {}", pairs.len(), r.result),
                        )));
                    }
                    for (e, (a, b)) in r.elements.iter().zip(&pairs) {
                        if e.from.0 != *a || e.to.0 != *b {
                            return Ok(Err(wrong(
                                "insert_edges_endpoints",
                                format!("edge {} reported {}->{} expected {a}->{b}", e.id.0, e.from.0, e.to.0),
                            )));
                        }
                    }
                }
            }
            MutQ::InsertEdgesIds { ids, values } => {
                let mut edges = vec![];
                for q in ids {
                    match self.resolve(q) {
                        Some(n) if n < 0 => edges.push(n),
                        Some(_) => return fail("insert edges with ids: node id"),
                        None => return fail("insert edges with ids: missing id"),
                    }
                }
                match values {
                    Vals::Multi(m) if m.len() != edges.len() => {
                        return fail("values do not match ids");
                    }
                    _ => {}
                }
                for (i, e) in edges.iter().enumerate() {
                    let vals: &[Kv] = match values {
                        Vals::None => &[],
                        Vals::Single(s) => s,
                        Vals::Multi(m) => &m[i],
                    };
                    for (k, v) in vals {
                        self.set_value(*e, k, v);
                    }
                }
            }
            MutQ::InsertAliases { ids, aliases } => {
                if ids.len() != aliases.len() {
                    return fail("ids do not match aliases");
                }
                for (q, a) in ids.iter().zip(aliases) {
                    if a.is_empty() {
                        return fail("empty alias");
                    }
                    match self.resolve(q) {
                        Some(n) if n > 0 => self.set_alias(n, a),
                        Some(_) => return fail("alias for an edge"),
                        None => return fail("alias for a missing id"),
                    }
                }
                if let Some(r) = res {
                    if r.result != ids.len() as u64 {
                        return Ok(Err(wrong(
                            "insert_aliases_count",
                            format!("expected {} got {}", ids.len(), r.result),
                        )));
                    }
                }
            }
            MutQ::InsertValues { ids, values } => {
                let mut pos = 0usize;
                let mut written = 0u64;
                let mut created_any = false;
                // ids are resolved one at a time, as each is processed (an earlier id of the
                // same query may have created the node / alias a later one refers to)
                let targets: Vec<Result<i64, QId>> = match ids {
                    Ids::List(l) => l.iter().map(|q| Err(q.clone())).collect(),
                    Ids::Search(s) => match search_ref::search(self, s, search_ref::Reading::default()) {
                        Ok(v) => v.into_iter().map(Ok).collect(),
                        Err(_) => return fail("sub-query search fails"),
                    },
                };
                match values {
                    Vals::Multi(m) if m.len() != targets.len() => {
                        return fail("values do not match ids");
                    }
                    _ => {}
                }
                for (i, tgt) in targets.iter().enumerate() {
                    let vals: &[Kv] = match values {
                        Vals::None => &[],
                        Vals::Single(s) => s,
                        Vals::Multi(m) => &m[i],
                    };
                    let resolved: Result<i64, QId> = match tgt {
                        Ok(id) => Ok(*id),
                        Err(q) => self.resolve(q).ok_or_else(|| q.clone()),
                    };
                    let id = match resolved {
                        Ok(id) => {
                            if !self.exists(id) {
                                return fail("id vanished");
                            }
                            id
                        }
                        Err(QId::Id(0)) => {
                            let id = tri!(next_new(true, self, &mut pos));
                            self.add_node(id);
                            created_any = true;
                            id
                        }
                        Err(QId::Id(_)) => {
                            if !have_res && created_any {
                                // the id may be the one an earlier entry of this query receives
                                return fail("undecided: id may be created earlier in the same query");
                            }
                            return fail("insert values: missing id");
                        }
                        Err(QId::Alias(a)) => {
                            if a.is_empty() {
                                return fail("empty alias");
                            }
                            let id = tri!(next_new(true, self, &mut pos));
                            self.add_node(id);
                            self.set_alias(id, &a);
                            created_any = true;
                            id
                        }
                    };
                    for (k, v) in vals {
                        self.set_value(id, k, v);
                        written += 1;
                    }
                }
                if let Some(r) = res {
                    if r.result != written {
                        return Ok(Err(wrong(
                            "insert_values_count",
                            format!("expected {written} pairs written, result {}", r.result),
                        )));
                    }
                    if r.elements.len() != pos {
                        return Ok(Err(wrong(
                            "insert_values_new_elements",
                            format!("expected {pos} new elements, result lists {}", r.elements.len()),
                        )));
                    }
                }
            }
            MutQ::InsertIndex(k) => {
                if self.indexes.contains(k) {
                    return fail("index exists");
                }
                self.indexes.insert(k.clone());
                if let Some(r) = res {
                    let n = self.elems.values().filter(|e| e.values.iter().any(|(kk, _)| kk == k)).count() as u64;
                    if r.result != n {
                        return Ok(Err(wrong(
                            "insert_index_count",
                            format!("index over {n} existing values reported {}", r.result),
                        )));
                    }
                }
            }
            MutQ::RemoveIndex(k) => {
                self.indexes.remove(k);
            }
            MutQ::Remove(ids) => {
                let mut removed = 0u64;
                match ids {
                    Ids::List(l) => {
                        for q in l {
                            if let Some(id) = self.resolve(q) {
                                if self.remove(id) {
                                    removed += 1;
                                }
                            }
                        }
                    }
                    Ids::Search(s) => match search_ref::search(self, s, search_ref::Reading::default()) {
                        Ok(v) => {
                            for id in v {
                                if self.remove(id) {
                                    removed += 1;
                                }
                            }
                        }
                        Err(_) => return fail("sub-query search fails"),
                    },
                }
                if let Some(r) = res {
                    if r.result != removed {
                        return Ok(Err(wrong(
                            "remove_count",
                            format!("expected {removed} removed, result {}", r.result),
                        )));
                    }
                }
            }
            MutQ::RemoveAliases(list) => {
                let mut n = 0u64;
                for a in list {
                    if self.aliases.remove(a).is_some() {
                        n += 1;
                    }
                }
                if let Some(r) = res {
                    if r.result != n {
                        return Ok(Err(wrong(
                            "remove_aliases_count",
                            format!("expected {n} got {}", r.result),
                        )));
                    }
                }
            }
            MutQ::RemoveValues { ids, keys } => {
                let targets: Vec<i64> = match ids {
                    Ids::List(l) => {
                        let mut v = vec![];
                        for q in l {
                            match self.resolve(q) {
                                Some(id) => v.push(id),
                                None => return fail("remove values: missing id"),
                            }
                        }
                        v
                    }
                    Ids::Search(s) => match search_ref::search(self, s, search_ref::Reading::default()) {
                        Ok(v) => v,
                        Err(_) => return fail("sub-query search fails"),
                    },
                };
                let mut n = 0u64;
                for id in targets {
                    for k in keys {
                        if self.remove_key(id, k) {
                            n += 1;
                        }
                    }
                }
                if let Some(r) = res {
                    if r.result != n {
                        return Ok(Err(wrong(
                            "remove_values_count",
                            format!("expected {n} got {}", r.result),
                        )));
                    }
                }
            }
        }
        Ok(Ok(()))
    }
}
