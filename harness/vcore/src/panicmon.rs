//! Panic monitor: a process-wide panic hook that records message, location and
//! the innermost in-repo function, plus `catch` = `catch_unwind` returning that
//! record. Sound here because agdb has no unsafe code and a database object that
//! panicked is discarded by the callers.

use std::cell::RefCell;
use std::panic::AssertUnwindSafe;
use std::sync::Once;
use std::sync::atomic::AtomicU64;
use std::sync::atomic::Ordering;

#[derive(Clone, Debug)]
pub struct PanicRecord {
    pub message: String,
    pub file: String,
    pub line: u32,
    pub function: String,
}

impl PanicRecord {
    /// signature without line numbers or concrete numbers
    pub fn signature(&self) -> String {
        format!(
            "panic:{}@{}:{}",
            classify(&self.message),
            short_file(&self.file),
            self.function
        )
    }
}

fn short_file(f: &str) -> String {
    match f.find("agdb") {
        Some(i) if f.starts_with("/repo/") => f[i..].to_string(),
        _ => {
            // std / registry: keep last two components
            let parts: Vec<&str> = f.rsplit('/').take(2).collect();
            parts.into_iter().rev().collect::<Vec<_>>().join("/")
        }
    }
}

/// strips digits so "index 5 out of range for slice of length 3" and
/// "index 9 out of range for slice of length 0" are one class
pub fn classify(msg: &str) -> String {
    let mut out = String::new();
    let mut last_hash = false;
    for c in msg.chars().take(160) {
        if c.is_ascii_digit() {
            if !last_hash {
                out.push('#');
            }
            last_hash = true;
        } else {
            out.push(if c == '\n' { ' ' } else { c });
            last_hash = false;
        }
    }
    out
}

thread_local! {
    static LAST: RefCell<Option<PanicRecord>> = const { RefCell::new(None) };
    static QUIET: RefCell<bool> = const { RefCell::new(true) };
    static DEPTH: RefCell<u32> = const { RefCell::new(0) };
}

static INIT: Once = Once::new();
static BACKTRACES: AtomicU64 = AtomicU64::new(0);
const MAX_BACKTRACES: u64 = 400;

fn in_repo_function() -> String {
    if BACKTRACES.fetch_add(1, Ordering::Relaxed) >= MAX_BACKTRACES {
        return "?".to_string();
    }
    let bt = std::backtrace::Backtrace::force_capture().to_string();
    // lines look like "  12: agdb::utilities::serialize::<impl ...>::deserialize"
    for line in bt.lines() {
        let l = line.trim();
        if let Some(pos) = l.find(": ") {
            let sym = &l[pos + 2..];
            let is_repo = sym.starts_with("agdb")
                || sym.starts_with("<agdb")
                || sym.contains(" agdb")
                || sym.contains("<agdb");
            if is_repo && !sym.contains("panicmon") {
                // strip hashes and generic noise
                let mut s = sym.to_string();
                if let Some(h) = s.rfind("::h") {
                    if s[h + 3..].chars().all(|c| c.is_ascii_hexdigit()) {
                        s.truncate(h);
                    }
                }
                return s;
            }
        }
    }
    "?".to_string()
}

pub fn install() {
    INIT.call_once(|| {
        std::panic::set_hook(Box::new(|info| {
            let message = if let Some(s) = info.payload().downcast_ref::<&str>() {
                s.to_string()
            } else if let Some(s) = info.payload().downcast_ref::<String>() {
                s.clone()
            } else {
                "<non-string panic>".to_string()
            };
            let (file, line) = info
                .location()
                .map(|l| (l.file().to_string(), l.line()))
                .unwrap_or_default();
            let function = in_repo_function();
            let quiet = QUIET.with(|q| *q.borrow()) && DEPTH.with(|d| *d.borrow()) > 0;
            if !quiet {
                eprintln!("PANIC {message} at {file}:{line} in {function}");
            }
            LAST.with(|l| {
                *l.borrow_mut() = Some(PanicRecord {
                    message,
                    file,
                    line,
                    function,
                })
            });
        }));
    });
}

pub fn set_quiet(q: bool) {
    QUIET.with(|x| *x.borrow_mut() = q);
}

/// Runs `f`; a panic is turned into `Err(record)`.
pub fn catch<T>(f: impl FnOnce() -> T) -> Result<T, PanicRecord> {
    install();
    LAST.with(|l| *l.borrow_mut() = None);
    DEPTH.with(|d| *d.borrow_mut() += 1);
    let r = std::panic::catch_unwind(AssertUnwindSafe(f));
    DEPTH.with(|d| *d.borrow_mut() -= 1);
    match r {
        Ok(v) => Ok(v),
        Err(_) => Err(LAST.with(|l| l.borrow_mut().take()).unwrap_or(PanicRecord {
            message: "<panic not recorded>".into(),
            file: String::new(),
            line: 0,
            function: "?".into(),
        })),
    }
}
