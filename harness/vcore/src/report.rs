//! Engine result: what was explored, what was observed, what was violated.
//! The orchestrator (`vcheck`) turns this into evidence/<id>.json and into
//! VIOLATION / KNOWN-FINDING lines.

use serde_json::Value;
use serde_json::json;
use std::collections::BTreeMap;
use std::collections::BTreeSet;

#[derive(Clone, Debug)]
pub struct Violation {
    /// stable signature used for known-finding matching (no seeds, no line numbers)
    pub signature: String,
    pub detail: String,
    /// concrete witness, replayable without the generator
    pub replay: Value,
}

#[derive(Clone, Debug, Default)]
pub struct Report {
    pub property: String,
    pub evaluations: u64,
    pub distinct: BTreeSet<u64>,
    pub rule: String,
    pub samples: Vec<Value>,
    pub counters: BTreeMap<String, i64>,
    pub maxima: BTreeMap<String, i64>,
    pub violations: Vec<Violation>,
    pub violations_total: u64,
    pub violations_by_signature: BTreeMap<String, u64>,
    pub inconclusive: Vec<String>,
    pub coverage_fail: Vec<String>,
    pub assumptions: Vec<String>,
    pub exhaustive: bool,
    pub extra: BTreeMap<String, Value>,
}

const MAX_SAMPLES: usize = 6;
const MAX_PER_SIGNATURE: u64 = 3;
const MAX_VIOLATIONS: usize = 200;

impl Report {
    pub fn new(property: &str, rule: &str) -> Self {
        Report {
            property: property.to_string(),
            rule: rule.to_string(),
            ..Default::default()
        }
    }
    pub fn eval(&mut self) {
        self.evaluations += 1;
    }
    pub fn distinct_hash(&mut self, h: u64) {
        self.distinct.insert(h);
    }
    pub fn distinct_str(&mut self, s: &str) {
        self.distinct.insert(crate::rng::tag(s));
    }
    pub fn count(&mut self, key: &str) {
        *self.counters.entry(key.to_string()).or_insert(0) += 1;
    }
    pub fn add(&mut self, key: &str, n: i64) {
        *self.counters.entry(key.to_string()).or_insert(0) += n;
    }
    pub fn max(&mut self, key: &str, n: i64) {
        let e = self.maxima.entry(key.to_string()).or_insert(i64::MIN);
        if n > *e {
            *e = n;
        }
    }
    pub fn sample(&mut self, v: impl FnOnce() -> Value) {
        if self.samples.len() < MAX_SAMPLES {
            self.samples.push(v());
        }
    }
    pub fn violation(&mut self, signature: &str, detail: &str, replay: Value) {
        // a panic raised by the harness's own code (no agdb frame on the stack, location in a `src/` file of the
        // harness: a scratch directory that cannot be created, a full disk, a harness bug) says nothing about the
        // property: inconclusive, never a violation
        if let Some(at) = signature.split(":panic:").nth(1).and_then(|p| p.rsplit_once('@')).map(|x| x.1) {
            if at.starts_with("src/") && at.ends_with(":?") {
                self.inconclusive(&format!("harness error (not a verdict): {signature}: {}", detail.chars().take(300).collect::<String>()));
                self.count("harness_errors");
                return;
            }
        }
        self.violations_total += 1;
        let n = self
            .violations_by_signature
            .entry(signature.to_string())
            .or_insert(0);
        *n += 1;
        if *n <= MAX_PER_SIGNATURE && self.violations.len() < MAX_VIOLATIONS {
            self.violations.push(Violation {
                signature: signature.to_string(),
                detail: detail.to_string(),
                replay,
            });
        }
    }
    pub fn inconclusive(&mut self, why: &str) {
        if self.inconclusive.len() < 50 {
            self.inconclusive.push(why.to_string());
        }
        self.count("inconclusive_cases");
    }
    /// coverage threshold: the engine must have observed at least `min` of `key`
    pub fn require(&mut self, key: &str, min: i64) {
        let have = self.counters.get(key).copied().unwrap_or(0);
        if have < min {
            self.coverage_fail
                .push(format!("counter {key} = {have} < required {min}"));
        }
    }
    pub fn merge(&mut self, o: Report) {
        self.evaluations += o.evaluations;
        self.distinct.extend(o.distinct);
        for s in o.samples {
            if self.samples.len() < MAX_SAMPLES {
                self.samples.push(s);
            }
        }
        for (k, v) in o.counters {
            *self.counters.entry(k).or_insert(0) += v;
        }
        for (k, v) in o.maxima {
            let e = self.maxima.entry(k).or_insert(i64::MIN);
            if v > *e {
                *e = v;
            }
        }
        self.violations_total += o.violations_total;
        for (k, v) in o.violations_by_signature {
            *self.violations_by_signature.entry(k).or_insert(0) += v;
        }
        let mut per: BTreeMap<String, u64> = BTreeMap::new();
        for v in &self.violations {
            *per.entry(v.signature.clone()).or_insert(0) += 1;
        }
        for v in o.violations {
            let n = per.entry(v.signature.clone()).or_insert(0);
            if *n < MAX_PER_SIGNATURE && self.violations.len() < MAX_VIOLATIONS {
                *n += 1;
                self.violations.push(v);
            }
        }
        for i in o.inconclusive {
            if self.inconclusive.len() < 50 {
                self.inconclusive.push(i);
            }
        }
        self.coverage_fail.extend(o.coverage_fail);
        for a in o.assumptions {
            if !self.assumptions.contains(&a) {
                self.assumptions.push(a);
            }
        }
        self.exhaustive = self.exhaustive || o.exhaustive;
        self.extra.extend(o.extra);
    }
    pub fn to_json(&self) -> Value {
        json!({
            "property": self.property,
            "evaluations": self.evaluations,
            "distinct_nontrivial": self.distinct.len(),
            "rule": self.rule,
            "samples": self.samples,
            "counters": self.counters,
            "maxima": self.maxima,
            "violations_total": self.violations_total,
            "violations_by_signature": self.violations_by_signature,
            "violations": self.violations.iter().map(|v| json!({
                "signature": v.signature, "detail": v.detail, "replay": v.replay
            })).collect::<Vec<_>>(),
            "inconclusive": self.inconclusive,
            "coverage_fail": self.coverage_fail,
            "assumptions": self.assumptions,
            "exhaustive": self.exhaustive,
            "extra": self.extra,
        })
    }
    pub fn write(&self, path: &str) {
        let s = serde_json::to_string_pretty(&self.to_json()).unwrap();
        std::fs::write(path, s).expect("write report");
    }
}

pub fn hex(b: &[u8]) -> String {
    let mut s = String::with_capacity(b.len() * 2);
    for x in b {
        s.push_str(&format!("{x:02x}"));
    }
    s
}

pub fn unhex(s: &str) -> Vec<u8> {
    (0..s.len() / 2)
        .map(|i| u8::from_str_radix(&s[2 * i..2 * i + 2], 16).unwrap_or(0))
        .collect()
}

impl Report {
    pub fn from_json(v: &Value) -> Report {
        let mut r = Report::new(
            v["property"].as_str().unwrap_or(""),
            v["rule"].as_str().unwrap_or(""),
        );
        r.evaluations = v["evaluations"].as_u64().unwrap_or(0);
        if let Some(a) = v["distinct_hashes"].as_array() {
            for h in a {
                if let Some(x) = h.as_u64() {
                    r.distinct.insert(x);
                }
            }
        }
        if let Some(a) = v["samples"].as_array() {
            r.samples = a.clone();
        }
        if let Some(o) = v["counters"].as_object() {
            for (k, x) in o {
                r.counters.insert(k.clone(), x.as_i64().unwrap_or(0));
            }
        }
        if let Some(o) = v["maxima"].as_object() {
            for (k, x) in o {
                r.maxima.insert(k.clone(), x.as_i64().unwrap_or(0));
            }
        }
        r.violations_total = v["violations_total"].as_u64().unwrap_or(0);
        if let Some(o) = v["violations_by_signature"].as_object() {
            for (k, x) in o {
                r.violations_by_signature
                    .insert(k.clone(), x.as_u64().unwrap_or(0));
            }
        }
        if let Some(a) = v["violations"].as_array() {
            for x in a {
                r.violations.push(Violation {
                    signature: x["signature"].as_str().unwrap_or("").to_string(),
                    detail: x["detail"].as_str().unwrap_or("").to_string(),
                    replay: x["replay"].clone(),
                });
            }
        }
        let strs = |k: &str| -> Vec<String> {
            v[k].as_array()
                .map(|a| {
                    a.iter()
                        .filter_map(|x| x.as_str().map(|s| s.to_string()))
                        .collect()
                })
                .unwrap_or_default()
        };
        r.inconclusive = strs("inconclusive");
        r.coverage_fail = strs("coverage_fail");
        r.assumptions = strs("assumptions");
        r.exhaustive = v["exhaustive"].as_bool().unwrap_or(false);
        if let Some(o) = v["extra"].as_object() {
            for (k, x) in o {
                r.extra.insert(k.clone(), x.clone());
            }
        }
        r
    }
    /// compact wire form used between worker and parent (includes the raw
    /// distinct hashes so the parent can union them)
    pub fn to_wire(&self) -> String {
        let mut v = self.to_json();
        v["distinct_hashes"] = Value::Array(self.distinct.iter().map(|h| json!(h)).collect());
        serde_json::to_string(&v).unwrap()
    }
}
