//! Deterministic PRNG (SplitMix64) and seed derivation. No wall clock, no pid.

#[derive(Clone, Debug)]
pub struct Rng(pub u64);

pub fn mix(mut z: u64) -> u64 {
    z = z.wrapping_add(0x9E37_79B9_7F4A_7C15);
    z = (z ^ (z >> 30)).wrapping_mul(0xBF58_476D_1CE4_E5B9);
    z = (z ^ (z >> 27)).wrapping_mul(0x94D0_49BB_1331_11EB);
    z ^ (z >> 31)
}

/// seed for (root seed, tags...) — property, worker, case
pub fn derive(seed: u64, tags: &[u64]) -> u64 {
    let mut h = mix(seed ^ 0xA5A5_5A5A_1234_5678);
    for t in tags {
        h = mix(h ^ mix(*t));
    }
    h
}

pub fn tag(s: &str) -> u64 {
    let mut h = 0xcbf2_9ce4_8422_2325u64;
    for b in s.bytes() {
        h ^= b as u64;
        h = h.wrapping_mul(0x100_0000_01b3);
    }
    h
}

impl Rng {
    pub fn new(seed: u64) -> Self {
        Rng(mix(seed))
    }
    pub fn next_u64(&mut self) -> u64 {
        self.0 = self.0.wrapping_add(0x9E37_79B9_7F4A_7C15);
        let mut z = self.0;
        z = (z ^ (z >> 30)).wrapping_mul(0xBF58_476D_1CE4_E5B9);
        z = (z ^ (z >> 27)).wrapping_mul(0x94D0_49BB_1331_11EB);
        z ^ (z >> 31)
    }
    /// uniform in 0..n (n > 0)
    pub fn below(&mut self, n: u64) -> u64 {
        if n == 0 {
            return 0;
        }
        self.next_u64() % n
    }
    pub fn usize(&mut self, n: usize) -> usize {
        self.below(n as u64) as usize
    }
    /// inclusive range
    pub fn range(&mut self, lo: i64, hi: i64) -> i64 {
        if hi <= lo {
            return lo;
        }
        lo + self.below((hi - lo + 1) as u64) as i64
    }
    pub fn chance(&mut self, num: u64, den: u64) -> bool {
        self.below(den) < num
    }
    pub fn pick<'a, T>(&mut self, v: &'a [T]) -> &'a T {
        &v[self.usize(v.len())]
    }
    pub fn bytes(&mut self, n: usize) -> Vec<u8> {
        let mut v = Vec::with_capacity(n);
        while v.len() < n {
            let x = self.next_u64().to_le_bytes();
            let take = std::cmp::min(8, n - v.len());
            v.extend_from_slice(&x[..take]);
        }
        v
    }
    /// weighted choice: returns index
    pub fn weighted(&mut self, w: &[u32]) -> usize {
        let total: u64 = w.iter().map(|x| *x as u64).sum();
        let mut r = self.below(total.max(1));
        for (i, x) in w.iter().enumerate() {
            if r < *x as u64 {
                return i;
            }
            r -= *x as u64;
        }
        w.len() - 1
    }
    pub fn shuffle<T>(&mut self, v: &mut [T]) {
        for i in (1..v.len()).rev() {
            let j = self.usize(i + 1);
            v.swap(i, j);
        }
    }
    pub fn fork(&mut self) -> Rng {
        Rng::new(self.next_u64())
    }
}
