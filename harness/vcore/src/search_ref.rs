//! Independent reference implementations of the searches over the model:
//! BFS / DFS (forward, reverse), elements scan, index lookup, path (Dijkstra over
//! element costs), the condition evaluator implementing the documented truth
//! tables, ordering and limit/offset.

use crate::model::Model;
use agdb::Comparison;
use agdb::CountComparison;
use agdb::DbKeyOrder;
use agdb::DbValue;
use agdb::QueryCondition;
use agdb::QueryConditionData;
use agdb::QueryConditionLogic;
use agdb::QueryConditionModifier;
use agdb::QueryId;
use agdb::SearchQuery;
use agdb::SearchQueryAlgorithm;
use std::cmp::Ordering;
use std::collections::BTreeMap;
use std::collections::BTreeSet;

/// How the documentation's open corners are read (DESIGN §6 C15).
#[derive(Clone, Copy, Debug, PartialEq, Eq, Default)]
pub struct Reading {
    /// `beyond`/`not_beyond` combined by the modifier *table* (`Continue(true)`/`Stop(true)`
    /// entering the and/or) instead of the prose ("does not affect element selection")
    pub modifier_table: bool,
    /// `beyond` with a false inner condition stops even at the origin (distance 0)
    pub beyond_stops_at_origin: bool,
}

pub const READINGS: [Reading; 4] = [
    Reading {
        modifier_table: false,
        beyond_stops_at_origin: false,
    },
    Reading {
        modifier_table: true,
        beyond_stops_at_origin: false,
    },
    Reading {
        modifier_table: false,
        beyond_stops_at_origin: true,
    },
    Reading {
        modifier_table: true,
        beyond_stops_at_origin: true,
    },
];

#[derive(Clone, Copy, Debug, PartialEq, Eq)]
pub enum Ctl {
    Continue(bool),
    Stop(bool),
}

impl Ctl {
    pub fn val(self) -> bool {
        match self {
            Ctl::Continue(v) | Ctl::Stop(v) => v,
        }
    }
    fn and(self, o: Ctl) -> Ctl {
        match (self, o) {
            (Ctl::Continue(a), Ctl::Continue(b)) => Ctl::Continue(a && b),
            (a, b) => Ctl::Stop(a.val() && b.val()),
        }
    }
    fn or(self, o: Ctl) -> Ctl {
        match (self, o) {
            (Ctl::Stop(a), Ctl::Stop(b)) => Ctl::Stop(a || b),
            (a, b) => Ctl::Continue(a.val() || b.val()),
        }
    }
    fn flip(self) -> Ctl {
        match self {
            Ctl::Continue(v) => Ctl::Continue(!v),
            Ctl::Stop(v) => Ctl::Stop(!v),
        }
    }
}

pub fn count_cmp(c: &CountComparison, left: u64) -> bool {
    match c {
        CountComparison::Equal(r) => left == *r,
        CountComparison::GreaterThan(r) => left > *r,
        CountComparison::GreaterThanOrEqual(r) => left >= *r,
        CountComparison::LessThan(r) => left < *r,
        CountComparison::LessThanOrEqual(r) => left <= *r,
        CountComparison::NotEqual(r) => left != *r,
    }
}

/// distance: selection = the comparison; traversal stops where it can no longer hold
fn distance_ctl(c: &CountComparison, d: u64) -> Ctl {
    match c {
        CountComparison::Equal(k) => match d.cmp(k) {
            Ordering::Less => Ctl::Continue(false),
            Ordering::Equal => Ctl::Stop(true),
            Ordering::Greater => Ctl::Stop(false),
        },
        CountComparison::GreaterThan(k) => Ctl::Continue(d > *k),
        CountComparison::GreaterThanOrEqual(k) => Ctl::Continue(d >= *k),
        CountComparison::LessThan(k) => {
            if d < *k {
                Ctl::Continue(true)
            } else {
                Ctl::Stop(false)
            }
        }
        CountComparison::LessThanOrEqual(k) => {
            if d <= *k {
                Ctl::Continue(true)
            } else {
                Ctl::Stop(false)
            }
        }
        CountComparison::NotEqual(k) => Ctl::Continue(d != *k),
    }
}

pub fn type_tag(v: &DbValue) -> u8 {
    match v {
        DbValue::Bytes(_) => 1,
        DbValue::I64(_) => 2,
        DbValue::U64(_) => 3,
        DbValue::F64(_) => 4,
        DbValue::String(_) => 5,
        DbValue::VecI64(_) => 6,
        DbValue::VecU64(_) => 7,
        DbValue::VecF64(_) => 8,
        DbValue::VecString(_) => 9,
    }
}

/// independent same-type ordering (None: different types or unordered)
pub fn same_type_cmp(a: &DbValue, b: &DbValue) -> Option<Ordering> {
    match (a, b) {
        (DbValue::I64(x), DbValue::I64(y)) => Some(x.cmp(y)),
        (DbValue::U64(x), DbValue::U64(y)) => Some(x.cmp(y)),
        (DbValue::F64(x), DbValue::F64(y)) => Some(x.to_f64().total_cmp(&y.to_f64())),
        (DbValue::String(x), DbValue::String(y)) => Some(x.as_bytes().cmp(y.as_bytes())),
        (DbValue::Bytes(x), DbValue::Bytes(y)) => Some(x.cmp(y)),
        (DbValue::VecI64(x), DbValue::VecI64(y)) => Some(x.cmp(y)),
        (DbValue::VecU64(x), DbValue::VecU64(y)) => Some(x.cmp(y)),
        (DbValue::VecString(x), DbValue::VecString(y)) => Some(x.cmp(y)),
        (DbValue::VecF64(x), DbValue::VecF64(y)) => {
            for (p, q) in x.iter().zip(y.iter()) {
                let o = p.to_f64().total_cmp(&q.to_f64());
                if o != Ordering::Equal {
                    return Some(o);
                }
            }
            Some(x.len().cmp(&y.len()))
        }
        _ => None,
    }
}

fn value_eq(a: &DbValue, b: &DbValue) -> bool {
    type_tag(a) == type_tag(b) && same_type_cmp(a, b) == Some(Ordering::Equal)
}

/// type-strict comparison as documented
pub fn compare(c: &Comparison, left: &DbValue) -> bool {
    let ord = |r: &DbValue, f: fn(Ordering) -> bool| same_type_cmp(left, r).map(f).unwrap_or(false);
    match c {
        Comparison::Equal(r) => value_eq(left, r),
        Comparison::NotEqual(r) => !value_eq(left, r),
        Comparison::GreaterThan(r) => ord(r, |o| o == Ordering::Greater),
        Comparison::GreaterThanOrEqual(r) => ord(r, |o| o != Ordering::Less),
        Comparison::LessThan(r) => ord(r, |o| o == Ordering::Less),
        Comparison::LessThanOrEqual(r) => ord(r, |o| o != Ordering::Greater),
        Comparison::Contains(r) => match (left, r) {
            (DbValue::String(l), DbValue::String(r)) => l.contains(r.as_str()),
            (DbValue::String(l), DbValue::VecString(r)) => r.iter().all(|x| l.contains(x.as_str())),
            (DbValue::VecI64(l), DbValue::I64(r)) => l.contains(r),
            (DbValue::VecI64(l), DbValue::VecI64(r)) => r.iter().all(|x| l.contains(x)),
            (DbValue::VecU64(l), DbValue::U64(r)) => l.contains(r),
            (DbValue::VecU64(l), DbValue::VecU64(r)) => r.iter().all(|x| l.contains(x)),
            (DbValue::VecF64(l), DbValue::F64(r)) => l.contains(r),
            (DbValue::VecF64(l), DbValue::VecF64(r)) => r.iter().all(|x| l.contains(x)),
            (DbValue::VecString(l), DbValue::String(r)) => l.contains(r),
            (DbValue::VecString(l), DbValue::VecString(r)) => r.iter().all(|x| l.contains(x)),
            _ => false,
        },
        Comparison::StartsWith(r) => match (left, r) {
            (DbValue::String(l), DbValue::String(r)) => l.starts_with(r.as_str()),
            (DbValue::String(l), DbValue::VecString(r)) => l.starts_with(&r.concat()),
            (DbValue::VecI64(l), DbValue::I64(r)) => l.first() == Some(r),
            (DbValue::VecI64(l), DbValue::VecI64(r)) => l.starts_with(r),
            (DbValue::VecU64(l), DbValue::U64(r)) => l.first() == Some(r),
            (DbValue::VecU64(l), DbValue::VecU64(r)) => l.starts_with(r),
            (DbValue::VecF64(l), DbValue::F64(r)) => l.first() == Some(r),
            (DbValue::VecF64(l), DbValue::VecF64(r)) => l.starts_with(r),
            (DbValue::VecString(l), DbValue::String(r)) => l.first() == Some(r),
            (DbValue::VecString(l), DbValue::VecString(r)) => l.starts_with(r),
            _ => false,
        },
        Comparison::EndsWith(r) => match (left, r) {
            (DbValue::String(l), DbValue::String(r)) => l.ends_with(r.as_str()),
            (DbValue::String(l), DbValue::VecString(r)) => l.ends_with(&r.concat()),
            (DbValue::VecI64(l), DbValue::I64(r)) => l.last() == Some(r),
            (DbValue::VecI64(l), DbValue::VecI64(r)) => l.ends_with(r),
            (DbValue::VecU64(l), DbValue::U64(r)) => l.last() == Some(r),
            (DbValue::VecU64(l), DbValue::VecU64(r)) => l.ends_with(r),
            (DbValue::VecF64(l), DbValue::F64(r)) => l.last() == Some(r),
            (DbValue::VecF64(l), DbValue::VecF64(r)) => l.ends_with(r),
            (DbValue::VecString(l), DbValue::String(r)) => l.last() == Some(r),
            (DbValue::VecString(l), DbValue::VecString(r)) => l.ends_with(r),
            _ => false,
        },
    }
}

pub fn eval(m: &Model, id: i64, distance: u64, conds: &[QueryCondition], rd: Reading) -> Ctl {
    let mut result = Ctl::Continue(true);
    for c in conds {
        let inner: Ctl = match &c.data {
            QueryConditionData::Distance(cc) => distance_ctl(cc, distance),
            QueryConditionData::Edge => Ctl::Continue(id < 0),
            QueryConditionData::Node => Ctl::Continue(id > 0),
            QueryConditionData::EdgeCount(cc) => {
                Ctl::Continue(m.is_node(id) && count_cmp(cc, m.edge_count(id).0))
            }
            QueryConditionData::EdgeCountFrom(cc) => {
                Ctl::Continue(m.is_node(id) && count_cmp(cc, m.edge_count(id).1))
            }
            QueryConditionData::EdgeCountTo(cc) => {
                Ctl::Continue(m.is_node(id) && count_cmp(cc, m.edge_count(id).2))
            }
            QueryConditionData::Ids(ids) => Ctl::Continue(ids.iter().any(|q| match q {
                QueryId::Id(i) => i.0 == id,
                QueryId::Alias(a) => m.aliases.get(a).copied() == Some(id),
            })),
            QueryConditionData::KeyValue(kvc) => Ctl::Continue(match m.value(id, &kvc.key) {
                Some(v) => compare(&kvc.value, v),
                None => false,
            }),
            QueryConditionData::Keys(keys) => Ctl::Continue(
                keys.iter().all(|k| m.value(id, k).is_some()),
            ),
            QueryConditionData::Where(inner) => eval(m, id, distance, inner, rd),
        };
        let control = match c.modifier {
            QueryConditionModifier::None => inner,
            QueryConditionModifier::Not => inner.flip(),
            QueryConditionModifier::Beyond => {
                let sel = if rd.modifier_table { true } else { result.val() };
                if inner.val() || (distance == 0 && !rd.beyond_stops_at_origin) {
                    Ctl::Continue(sel)
                } else {
                    Ctl::Stop(sel)
                }
            }
            QueryConditionModifier::NotBeyond => {
                let sel = if rd.modifier_table { true } else { result.val() };
                if inner.val() {
                    Ctl::Stop(sel)
                } else {
                    Ctl::Continue(sel)
                }
            }
        };
        result = match c.logic {
            QueryConditionLogic::And => result.and(control),
            QueryConditionLogic::Or => result.or(control),
        };
    }
    result
}

/// does any condition (recursively) use traversal control or distance?
pub fn uses_control(conds: &[QueryCondition]) -> bool {
    conds.iter().any(|c| {
        matches!(
            c.modifier,
            QueryConditionModifier::Beyond | QueryConditionModifier::NotBeyond
        ) || match &c.data {
            QueryConditionData::Distance(_) => true,
            QueryConditionData::Where(i) => uses_control(i),
            _ => false,
        }
    })
}

/// unsliced, unordered traversal: returns (visited order with selection flag, distances)
pub fn traverse(
    m: &Model,
    origin: i64,
    dfs: bool,
    reverse: bool,
    conds: &[QueryCondition],
    rd: Reading,
) -> Vec<(i64, bool, u64)> {
    let mut out = vec![];
    if !m.exists(origin) {
        return out;
    }
    let mut visited: BTreeSet<i64> = BTreeSet::new();
    let next_of = |id: i64| -> Vec<i64> {
        if id > 0 {
            if reverse {
                m.inc.get(&id).cloned().unwrap_or_default()
            } else {
                m.out.get(&id).cloned().unwrap_or_default()
            }
        } else {
            let e = &m.elems[&id];
            vec![if reverse { e.from } else { e.to }]
        }
    };
    if dfs {
        // recursive pre-order with an explicit stack of iterators
        let mut stack: Vec<(i64, u64)> = vec![(origin, 0)];
        while let Some((id, d)) = stack.pop() {
            if !visited.insert(id) {
                continue;
            }
            let c = eval(m, id, d, conds, rd);
            out.push((id, c.val(), d));
            if let Ctl::Continue(_) = c {
                let nx = next_of(id);
                for n in nx.into_iter().rev() {
                    stack.push((n, d + 1));
                }
            }
        }
    } else {
        let mut queue: std::collections::VecDeque<(i64, u64)> = std::collections::VecDeque::new();
        queue.push_back((origin, 0));
        while let Some((id, d)) = queue.pop_front() {
            if !visited.insert(id) {
                continue;
            }
            let c = eval(m, id, d, conds, rd);
            out.push((id, c.val(), d));
            if let Ctl::Continue(_) = c {
                for n in next_of(id) {
                    queue.push_back((n, d + 1));
                }
            }
        }
    }
    out
}

/// shortest element-step distances from origin (no conditions)
pub fn distances(m: &Model, origin: i64, reverse: bool) -> BTreeMap<i64, u64> {
    traverse(m, origin, false, reverse, &[], Reading::default())
        .into_iter()
        .map(|(id, _, d)| (id, d))
        .collect()
}

fn key_of(o: &DbKeyOrder) -> (&DbValue, bool) {
    match o {
        DbKeyOrder::Asc(k) => (k, true),
        DbKeyOrder::Desc(k) => (k, false),
    }
}

/// documented ordering: stable sort by the keys, elements lacking a key last.
/// `None` if two compared values of one key have different types (order unspecified).
pub fn order_by(m: &Model, ids: &mut Vec<i64>, order: &[DbKeyOrder]) -> Option<()> {
    let mut unspecified = false;
    ids.sort_by(|a, b| {
        for o in order {
            let (k, asc) = key_of(o);
            let ord = match (m.value(*a, k), m.value(*b, k)) {
                (None, None) => Ordering::Equal,
                (None, Some(_)) => Ordering::Greater,
                (Some(_), None) => Ordering::Less,
                (Some(x), Some(y)) => match same_type_cmp(x, y) {
                    Some(o) => {
                        if asc {
                            o
                        } else {
                            o.reverse()
                        }
                    }
                    None => {
                        // order across types is unspecified: the caller discards the result;
                        // keep a total order so the sort itself stays well defined
                        unspecified = true;
                        type_tag(x).cmp(&type_tag(y))
                    }
                },
            };
            if ord != Ordering::Equal {
                return ord;
            }
        }
        Ordering::Equal
    });
    if unspecified { None } else { Some(()) }
}

pub fn slice(ids: Vec<i64>, limit: u64, offset: u64) -> Vec<i64> {
    let it = ids.into_iter().skip(offset as usize);
    if limit == 0 {
        it.collect()
    } else {
        it.take(limit as usize).collect()
    }
}

#[derive(Debug, PartialEq)]
pub enum SearchErr {
    /// documented to fail (missing origin/destination, index missing, ...)
    MustFail(String),
    /// documentation does not pin the outcome
    Unspecified(String),
}

/// reference result of a search query (exact sequence), under reading `rd`
pub fn search(m: &Model, q: &SearchQuery, rd: Reading) -> Result<Vec<i64>, SearchErr> {
    let zero = QueryId::Id(agdb::DbId(0));
    match q.algorithm {
        SearchQueryAlgorithm::Index => {
            let c = q
                .conditions
                .first()
                .ok_or_else(|| SearchErr::MustFail("index search without condition".into()))?;
            if let QueryConditionData::KeyValue(kvc) = &c.data {
                if !m.indexes.contains(&kvc.key) {
                    return Err(SearchErr::MustFail("index does not exist".into()));
                }
                let v = match &kvc.value {
                    Comparison::Equal(v) => v,
                    _ => return Err(SearchErr::Unspecified("index search with non-equal comparison".into())),
                };
                let mut ids: Vec<i64> = m
                    .elems
                    .iter()
                    .filter(|(_, e)| e.values.iter().any(|(k, x)| k == &kvc.key && x == v))
                    .map(|(id, _)| *id)
                    .collect();
                ids.sort();
                Ok(ids)
            } else {
                Err(SearchErr::MustFail("index condition must be key value".into()))
            }
        }
        SearchQueryAlgorithm::Elements => {
            let mut ids = vec![];
            for (i, id) in m.by_magnitude().into_iter().enumerate() {
                if eval(m, id, i as u64, &q.conditions, rd).val() {
                    ids.push(id);
                }
            }
            if !q.order_by.is_empty() {
                order_by(m, &mut ids, &q.order_by)
                    .ok_or_else(|| SearchErr::Unspecified("mixed-type ordering".into()))?;
            }
            Ok(slice(ids, q.limit, q.offset))
        }
        _ => {
            let dfs = q.algorithm == SearchQueryAlgorithm::DepthFirst;
            if q.origin != zero && q.destination != zero {
                let o = m
                    .resolve_agdb(&q.origin)
                    .ok_or_else(|| SearchErr::MustFail("origin missing".into()))?;
                let d = m
                    .resolve_agdb(&q.destination)
                    .ok_or_else(|| SearchErr::MustFail("destination missing".into()))?;
                let _ = (o, d);
                return Err(SearchErr::Unspecified("path search has no unique reference result".into()));
            }
            let (start, reverse) = if q.destination == zero {
                (
                    m.resolve_agdb(&q.origin)
                        .ok_or_else(|| SearchErr::MustFail("origin missing".into()))?,
                    false,
                )
            } else {
                (
                    m.resolve_agdb(&q.destination)
                        .ok_or_else(|| SearchErr::MustFail("destination missing".into()))?,
                    true,
                )
            };
            let mut ids: Vec<i64> = traverse(m, start, dfs, reverse, &q.conditions, rd)
                .into_iter()
                .filter(|x| x.1)
                .map(|x| x.0)
                .collect();
            if !q.order_by.is_empty() {
                order_by(m, &mut ids, &q.order_by)
                    .ok_or_else(|| SearchErr::Unspecified("mixed-type ordering".into()))?;
            }
            Ok(slice(ids, q.limit, q.offset))
        }
    }
}

// ---------------------------------------------------------------------------
// path search reference (C17)
// ---------------------------------------------------------------------------

/// cost of using element `id` at any position: None = unusable (conditions stop there)
pub fn element_cost(m: &Model, id: i64, conds: &[QueryCondition], rd: Reading) -> Option<(u64, bool)> {
    // distance-independent conditions only (the generator guarantees it); distance 1 is
    // passed so that `beyond` is not in its origin special case
    match eval(m, id, 1, conds, rd) {
        Ctl::Continue(true) => Some((1, true)),
        Ctl::Continue(false) => Some((2, false)),
        Ctl::Stop(_) => None,
    }
}

/// minimum total cost of a usable path origin -> destination (origin itself free)
pub fn min_path_cost(m: &Model, from: i64, to: i64, conds: &[QueryCondition], rd: Reading) -> Option<u64> {
    if from == to || !m.is_node(from) || !m.is_node(to) {
        return None;
    }
    let mut dist: BTreeMap<i64, u64> = BTreeMap::new();
    let mut heap: BTreeSet<(u64, i64)> = BTreeSet::new();
    dist.insert(from, 0);
    heap.insert((0, from));
    while let Some((d, n)) = heap.pop_first() {
        if n == to {
            return Some(d);
        }
        if dist.get(&n).copied().unwrap_or(u64::MAX) < d {
            continue;
        }
        for e in m.out.get(&n).cloned().unwrap_or_default() {
            let Some((ec, _)) = element_cost(m, e, conds, rd) else { continue };
            let t = m.elems[&e].to;
            let Some((nc, _)) = element_cost(m, t, conds, rd) else { continue };
            let nd = d + ec + nc;
            if nd < dist.get(&t).copied().unwrap_or(u64::MAX) {
                dist.insert(t, nd);
                heap.insert((nd, t));
            }
        }
    }
    None
}

/// Is `result` the passing-element projection of some usable path from `from` to `to` of
/// total cost `cost`? Product-graph search: state = (node, how many result entries matched).
pub fn path_witness(
    m: &Model,
    from: i64,
    to: i64,
    conds: &[QueryCondition],
    rd: Reading,
    result: &[i64],
    cost: u64,
    origin_selected: bool,
) -> bool {
    // position in `result` after consuming the origin
    let start_pos = if origin_selected {
        if result.first() != Some(&from) {
            return false;
        }
        1
    } else {
        0
    };
    // dijkstra over (node, pos) minimising cost; accept if (to, result.len()) reachable with == cost
    let mut best: BTreeMap<(i64, usize), u64> = BTreeMap::new();
    let mut heap: BTreeSet<(u64, i64, usize)> = BTreeSet::new();
    best.insert((from, start_pos), 0);
    heap.insert((0, from, start_pos));
    while let Some((d, n, p)) = heap.pop_first() {
        if n == to && p == result.len() && n != from {
            return d == cost;
        }
        if d > cost {
            continue;
        }
        for e in m.out.get(&n).cloned().unwrap_or_default() {
            let Some((ec, esel)) = element_cost(m, e, conds, rd) else { continue };
            let mut p2 = p;
            if esel {
                if result.get(p2) != Some(&e) {
                    continue;
                }
                p2 += 1;
            }
            let t = m.elems[&e].to;
            let Some((nc, nsel)) = element_cost(m, t, conds, rd) else { continue };
            if nsel {
                if result.get(p2) != Some(&t) {
                    continue;
                }
                p2 += 1;
            }
            let nd = d + ec + nc;
            if nd < best.get(&(t, p2)).copied().unwrap_or(u64::MAX) {
                best.insert((t, p2), nd);
                heap.insert((nd, t, p2));
            }
        }
    }
    false
}


/// like `min_path_cost`, also returning the fewest elements (origin excluded) among minimum-cost paths
pub fn min_path_cost_len(m: &Model, from: i64, to: i64, conds: &[QueryCondition], rd: Reading) -> Option<(u64, u64)> {
    if from == to || !m.is_node(from) || !m.is_node(to) {
        return None;
    }
    let mut dist: BTreeMap<i64, (u64, u64)> = BTreeMap::new();
    let mut heap: BTreeSet<((u64, u64), i64)> = BTreeSet::new();
    dist.insert(from, (0, 0));
    heap.insert(((0, 0), from));
    while let Some((d, n)) = heap.pop_first() {
        if n == to {
            return Some(d);
        }
        if dist.get(&n).copied().unwrap_or((u64::MAX, u64::MAX)) < d {
            continue;
        }
        for e in m.out.get(&n).cloned().unwrap_or_default() {
            let Some((ec, _)) = element_cost(m, e, conds, rd) else { continue };
            let t = m.elems[&e].to;
            let Some((nc, _)) = element_cost(m, t, conds, rd) else { continue };
            let nd = (d.0 + ec + nc, d.1 + 2);
            if nd < dist.get(&t).copied().unwrap_or((u64::MAX, u64::MAX)) {
                dist.insert(t, nd);
                heap.insert((nd, t));
            }
        }
    }
    None
}
