//! In-memory mirror of the server's cluster log storage (ClusterStorage over
//! ClusterLog), shared by the raft simulator (rafth) and by the validation driver
//! that compares it call by call with the real storage (srvh).

#[derive(Clone, Debug, PartialEq, Eq)]
pub struct SLog {
    pub index: u64,
    pub term: u64,
    pub data: u64,
    pub committed: bool,
}

#[derive(Default, Debug, Clone)]
pub struct SimLogStore {
    pub logs: Vec<SLog>,
    pub index: u64,
    pub term: u64,
    pub commit: u64,
}

impl SimLogStore {
    /// ClusterLog::remove_uncommitted_logs(index) + append_log
    pub fn append(&mut self, index: u64, term: u64, data: u64) {
        self.logs.retain(|l| l.committed || l.index < index);
        self.logs.push(SLog {
            index,
            term,
            data,
            committed: false,
        });
        self.index = index;
        self.term = term;
    }
    /// for log in logs_uncommitted(index) (sorted by index) { self.commit = index; mark committed }
    pub fn commit(&mut self, index: u64) -> Vec<u64> {
        let mut ids: Vec<usize> = (0..self.logs.len())
            .filter(|i| !self.logs[*i].committed && self.logs[*i].index <= index)
            .collect();
        ids.sort_by_key(|i| self.logs[*i].index);
        let mut executed = vec![];
        for i in ids {
            self.commit = index;
            self.logs[i].committed = true;
            executed.push(self.logs[i].data);
        }
        executed
    }
    /// ClusterLog::logs_since: the last (count - from_index) stored logs, oldest first
    pub fn logs_since(&self, from_index: u64) -> Vec<SLog> {
        let count = self.logs.len() as u64;
        let take = count.saturating_sub(from_index) as usize;
        if take == 0 {
            // the real query uses `.limit(count - from)` and a limit of 0 means "unlimited":
            // when nothing is newer than `from_index` *all* logs are returned (found by the
            // validation against the real ClusterStorage)
            return self.logs.clone();
        }
        self.logs[self.logs.len() - take..].to_vec()
    }
}
