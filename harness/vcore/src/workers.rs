//! Case engines and the worker-process protocol.
//!
//! Every engine is a list of independent, seed-derived *cases*. The parent
//! process shards the cases over worker subprocesses (`current_exe()` re-run with
//! `--worker i/n`). A worker prints
//!   `S <case>`  before a case, `E <case>` after it,
//!   `P <text>`  fine-grained progress inside a case (e.g. the crash point),
//!   `R <json>`  a partial report (delta) every few cases and at the end,
//!   `DONE`      when its shard is finished.
//! If a worker dies (abort from a refused allocation, stack overflow, signal) the
//! parent attributes the death to the case in flight, records it as a violation
//! with what stderr said, and restarts the shard after that case. A watchdog kills
//! a worker whose case makes no progress for a long wall-clock time; that is
//! recorded as *inconclusive*, never as a violation.

use crate::Args;
use crate::report::Report;
use serde_json::Value;
use serde_json::json;
use std::io::BufRead;
use std::io::Write;
use std::process::Command;
use std::process::Stdio;
use std::sync::mpsc;
use std::time::Duration;
use std::time::Instant;

pub trait CaseEngine: Sync {
    fn property(&self) -> &'static str;
    fn rule(&self) -> String;
    fn cases(&self, args: &Args) -> usize;
    /// run case `case`; everything random derives from (seed, property, case)
    fn run_case(&self, args: &Args, case: usize, rep: &mut Report, progress: &dyn Fn(&str));
    /// coverage thresholds and assumptions, applied to the merged report
    fn finish(&self, _args: &Args, _rep: &mut Report) {}
    /// does this engine want the process-wide allocation cap (bytes, 0 = none)
    fn alloc_cap(&self) -> usize {
        1 << 30
    }
    /// wall-clock watchdog per case (seconds)
    fn case_timeout_s(&self, _args: &Args) -> u64 {
        120
    }
    /// what a death of the worker means for this property: true = violation
    /// ("never aborts" or any property whose code must not abort), false = inconclusive
    fn abort_is_violation(&self) -> bool {
        true
    }
    /// a case made no progress for the watchdog time: `Some(signature suffix)` if that refutes this engine's
    /// property (given the last progress line and the agdb / harness frames of the stuck thread, innermost
    /// first), `None` if it is inconclusive
    /// Default: the stuck thread is inside agdb code (innermost frame of interest is agdb's, not the harness's):
    /// the operation the harness called does not return, which refutes every property (each presupposes that the
    /// operation delivers a result). Signature = the outermost agdb frame, i.e. the API entry point.
    fn hang_signature(&self, _progress: &str, frames: &[String]) -> Option<String> {
        let first = frames.first()?;
        if !first.contains("agdb::") {
            return None;
        }
        let outer = frames.iter().rev().find(|f| f.contains("agdb::"))?;
        Some(format!("operation_does_not_return:{outer}"))
    }
    /// after this many stuck cases the run gives up (engines whose open known findings include hangs raise it)
    fn max_stuck_cases(&self) -> u64 {
        12
    }
    /// per-file size limit for the workers (bytes); `None` = unlimited
    fn file_size_limit(&self) -> Option<u64> {
        None
    }
    /// after this many worker deaths (aborts) the run gives up
    fn max_worker_deaths(&self) -> u64 {
        96
    }
    /// CPU seconds (not wall-clock: load independent) a case may burn without emitting a progress line before it
    /// is killed as spinning; engines emit a progress line per operation, and an operation takes milliseconds
    fn hang_cpu_seconds(&self) -> f64 {
        240.0
    }
}

fn emit(line: &str) {
    let out = std::io::stdout();
    let mut l = out.lock();
    let _ = writeln!(l, "{line}");
    let _ = l.flush();
}

pub fn worker_main(engine: &dyn CaseEngine, args: &Args) {
    let spec = args.str("worker", "0/1");
    let mut it = spec.split('/');
    let shard: usize = it.next().and_then(|x| x.parse().ok()).unwrap_or(0);
    let of: usize = it.next().and_then(|x| x.parse().ok()).unwrap_or(1);
    let from = args.u64("from-case", 0) as usize;
    let n = engine.cases(args);
    // a worker whose parent is gone (killed run) must not keep spinning
    let parent = std::os::unix::process::parent_id();
    std::thread::spawn(move || {
        loop {
            std::thread::sleep(Duration::from_secs(1));
            if std::os::unix::process::parent_id() != parent {
                std::process::exit(3);
            }
        }
    });
    let cap = engine.alloc_cap();
    if cap > 0 {
        crate::alloccap::set_cap(cap);
    }
    let mut rep = Report::new(engine.property(), "");
    let mut since = 0;
    let mut last_flush = Instant::now();
    // cases are dealt round-robin with a rotation per round, so that engines whose heavy cases recur with a
    // small period (every 4th case, ...) do not load a few shards only
    for case in (0..n).filter(|c| (c + c / of) % of == shard && *c >= from) {
        emit(&format!("S {case}"));
        let progress = |s: &str| emit(&format!("P {s}"));
        if let Err(p) = crate::panicmon::catch(|| engine.run_case(args, case, &mut rep, &progress)) {
            // a panic that escaped the engine's own monitors (in agdb or in the harness)
            rep.violation(
                &format!("{}:{}", engine.property(), p.signature()),
                &format!("panic outside the engine's monitors in case {case}: {} at {}:{}", p.message, p.file, p.line),
                json!({"engine": args.pos.first(), "case": case, "seed": args.u64("seed", 1), "tier": args.str("tier", "quick")}),
            );
        }
        emit(&format!("E {case}"));
        since += 1;
        if since >= 64 || last_flush.elapsed() > Duration::from_secs(5) {
            rep.max("largest_allocation_request_bytes", crate::alloccap::largest() as i64);
            emit(&format!("R {}", rep.to_wire()));
            rep = Report::new(engine.property(), "");
            since = 0;
            last_flush = Instant::now();
        }
    }
    rep.max("largest_allocation_request_bytes", crate::alloccap::largest() as i64);
    emit(&format!("R {}", rep.to_wire()));
    emit("DONE");
}

enum Msg {
    Line(usize, String),
    Eof(usize),
}

struct Child {
    proc: std::process::Child,
    case: Option<usize>,
    last_p: String,
    done: bool,
    last_activity: Instant,
    stderr_path: String,
    generation: usize,
    /// what the worker was doing when the watchdog fired (progress line, agdb frames of its main thread, CPU seconds burnt without progress)
    hang: Option<(String, Vec<String>, f64)>,
    /// the parent killed this worker because its case was stuck (lines it had written before may still arrive)
    killed_by_watchdog: bool,
    /// (the `last_activity` instant the baseline belongs to, CPU seconds of the process at that moment)
    cpu_base: (Instant, f64),
}

/// CPU time (user + system, all threads) a process has consumed, in seconds: unlike wall-clock time it does not
/// advance while the process is starved on a loaded machine
fn cpu_seconds(pid: u32) -> f64 {
    let Ok(stat) = std::fs::read_to_string(format!("/proc/{pid}/stat")) else { return 0.0 };
    // fields after the parenthesised command name: state is field 3, utime 14, stime 15
    let Some(rest) = stat.rsplit_once(") ").map(|x| x.1) else { return 0.0 };
    let f: Vec<&str> = rest.split_whitespace().collect();
    let ticks: f64 = f.get(11).and_then(|x| x.parse::<f64>().ok()).unwrap_or(0.0) + f.get(12).and_then(|x| x.parse::<f64>().ok()).unwrap_or(0.0);
    ticks / 100.0
}

/// backtrace of a live process through gdb (pre-installed): the function names of its main thread, innermost first
fn gdb_frames(pid: u32) -> Vec<String> {
    let out = Command::new("timeout")
        .args(["20", "gdb", "-p", &pid.to_string(), "-batch", "-nx", "-ex", "bt 60"])
        .stdin(Stdio::null())
        .stderr(Stdio::null())
        .output();
    let Ok(out) = out else { return vec![] };
    let text = String::from_utf8_lossy(&out.stdout).to_string();
    let mut v = vec![];
    for l in text.lines() {
        let l = l.trim_start();
        if !l.starts_with('#') {
            continue;
        }
        // "#3  0x0000 in path::to::function (args) at file:line"  |  "#0  path::function (args) at ..."
        let rest = l.splitn(2, char::is_whitespace).nth(1).unwrap_or("").trim_start();
        let rest = rest.split_once(" in ").map(|x| x.1).unwrap_or(rest);
        let name = rest.split(" (").next().unwrap_or(rest).trim();
        if !name.is_empty() {
            v.push(name.to_string());
        }
    }
    v
}

fn spawn(args: &Args, shard: usize, of: usize, from: usize, tx: &mpsc::Sender<Msg>, scratch: &str, generation: usize, fsize_limit: Option<u64>) -> Child {
    let exe = std::env::current_exe().expect("current_exe");
    let stderr_path = format!("{scratch}/worker{shard}.{generation}.stderr");
    let errf = std::fs::File::create(&stderr_path).expect("stderr file");
    // optional per-file size limit (RLIMIT_FSIZE through the shell; SIGXFSZ ignored so that the write / truncate
    // fails with EFBIG instead of killing the worker): damaged inputs can make the code under test grow files to
    // terabytes and then copy them around, which would fill the sandbox's disk
    let mut cmd = match fsize_limit {
        Some(bytes) => {
            let mut c = Command::new("sh");
            c.arg("-c").arg(format!("trap '' XFSZ; ulimit -f {}; exec \"$0\" \"$@\"", bytes / 512)).arg(exe);
            c
        }
        None => Command::new(exe),
    };
    for p in &args.pos {
        cmd.arg(p);
    }
    for (k, v) in &args.kv {
        if k == "worker" || k == "from-case" || k == "out" {
            continue;
        }
        cmd.arg(format!("--{k}")).arg(v);
    }
    cmd.arg("--worker").arg(format!("{shard}/{of}"));
    cmd.arg("--from-case").arg(from.to_string());
    cmd.env("RUST_BACKTRACE", "1");
    cmd.stdout(Stdio::piped()).stderr(errf).stdin(Stdio::null());
    let mut proc = cmd.spawn().expect("spawn worker");
    let out = proc.stdout.take().unwrap();
    let tx = tx.clone();
    let id = shard;
    std::thread::spawn(move || {
        let r = std::io::BufReader::new(out);
        for line in r.lines() {
            match line {
                Ok(l) => {
                    if tx.send(Msg::Line(id, l)).is_err() {
                        return;
                    }
                }
                Err(_) => break,
            }
        }
        let _ = tx.send(Msg::Eof(id));
    });
    Child {
        proc,
        case: None,
        last_p: String::new(),
        hang: None,
        killed_by_watchdog: false,
        cpu_base: (Instant::now(), 0.0),
        done: false,
        last_activity: Instant::now(),
        stderr_path,
        generation,
    }
}

/// extracts (what, in-repo frame) from the stderr of a dead worker
fn classify_death(stderr: &str, status: &str) -> (String, String) {
    let mut what = format!("died:{status}");
    if let Some(l) = stderr.lines().find(|l| l.starts_with("ALLOCCAP size=")) {
        let n: u128 = l["ALLOCCAP size=".len()..].trim().parse().unwrap_or(0);
        what = format!("allocation_request_above_cap:{}", size_class(n));
    } else if let Some(l) = stderr.lines().find(|l| l.starts_with("memory allocation of ")) {
        let n: u128 = l
            .split_whitespace()
            .nth(3)
            .and_then(|x| x.parse().ok())
            .unwrap_or(0);
        what = format!("allocation_failed:{}", size_class(n));
    } else if stderr.contains("has overflowed its stack") {
        what = "stack_overflow".into();
    } else if stderr.contains("capacity overflow") {
        what = "capacity_overflow_abort".into();
    }
    let mut frame = "?".to_string();
    for line in stderr.lines() {
        let l = line.trim();
        if let Some(pos) = l.find(": ") {
            let sym = &l[pos + 2..];
            if (sym.starts_with("agdb") || sym.starts_with("<agdb")) && !sym.contains("verif::") {
                frame = sym.to_string();
                if let Some(h) = frame.rfind("::h") {
                    if frame[h + 3..].chars().all(|c| c.is_ascii_hexdigit()) {
                        frame.truncate(h);
                    }
                }
                break;
            }
        }
    }
    (what, frame)
}

fn size_class(n: u128) -> &'static str {
    if n >= 1 << 40 {
        ">=1TiB"
    } else if n >= 1 << 30 {
        ">=1GiB"
    } else {
        "<1GiB"
    }
}

pub fn parent_main(engine: &dyn CaseEngine, args: &Args) -> Report {
    let n = engine.cases(args);
    let workers = (args.u64("workers", 16) as usize).clamp(1, n.max(1));
    let scratch = crate::scratch_dir(
        &args.str("scratch-base", "/verif/scratch"),
        &format!("{}_parent", engine.property()),
    );
    let (tx, rx) = mpsc::channel();
    let mut children: Vec<Child> = (0..workers)
        .map(|i| spawn(args, i, workers, 0, &tx, &scratch, 0, engine.file_size_limit()))
        .collect();
    let mut rep = Report::new(engine.property(), &engine.rule());
    // the wall-clock watchdog (inconclusive) must not fire before the CPU budget (verdict) can be reached
    let cpu_budget = engine.hang_cpu_seconds();
    let wall = engine.case_timeout_s(args);
    let timeout = Duration::from_secs(if cpu_budget.is_finite() { wall.max(2 * cpu_budget as u64 + 60) } else { wall });
    let mut live = workers;
    let mut watchdog_kills = 0u64;
    let max_watchdog_kills = args.u64("max-stuck", engine.max_stuck_cases());
    let mut deaths = 0u64;
    let max_deaths = args.u64("max-deaths", engine.max_worker_deaths());
    let mut last_check = Instant::now();
    let mut drained = false;
    while live > 0 {
        // the check looks at `last_activity`, so it must not run while lines the workers have already written are
        // still queued (the parent may have been busy, e.g. inside gdb): only check when the queue was just drained
        if last_check.elapsed() >= Duration::from_secs(2) && drained {
            last_check = Instant::now();
            for c in children.iter_mut() {
                if c.done || c.case.is_none() || c.killed_by_watchdog {
                    continue;
                }
                // CPU seconds burnt since the last sign of progress (the baseline follows `last_activity`)
                let cpu_now = cpu_seconds(c.proc.id());
                if c.cpu_base.0 != c.last_activity {
                    c.cpu_base = (c.last_activity, cpu_now);
                }
                let cpu_stuck = cpu_now - c.cpu_base.1;
                // once the run has given up, workers that are stuck are given a short grace period only
                let limit = if watchdog_kills >= max_watchdog_kills { timeout.min(Duration::from_secs(10)) } else { timeout };
                if c.last_activity.elapsed() > limit || cpu_stuck > engine.hang_cpu_seconds() {
                    // function names without generic arguments; only agdb's and the harness's own frames are of interest
                    let frames: Vec<String> = gdb_frames(c.proc.id())
                        .into_iter()
                        .map(|f| f.split('<').next().unwrap_or("").trim_end_matches("::").to_string())
                        // the storage wrapper sits between two layers of agdb: transparent for "whose code is running"
                        .filter(|f| (f.contains("agdb::") || f.contains("vcore::") || f.contains("dbh::")) && !f.contains("vcore::wrap::"))
                        .collect();
                    c.hang = Some((c.last_p.clone(), frames, cpu_stuck));
                    c.killed_by_watchdog = true;
                    let _ = c.proc.kill();
                }
            }
        }
        // non-blocking first: `drained` is true exactly when nothing was waiting
        let msg = match rx.try_recv() {
            Ok(m) => {
                drained = false;
                Ok(m)
            }
            Err(mpsc::TryRecvError::Empty) => {
                drained = true;
                if last_check.elapsed() >= Duration::from_secs(2) {
                    continue;
                }
                rx.recv_timeout(Duration::from_millis(500))
            }
            Err(mpsc::TryRecvError::Disconnected) => Err(mpsc::RecvTimeoutError::Disconnected),
        };
        match msg {
            Ok(Msg::Line(i, l)) => {
                let c = &mut children[i];
                c.last_activity = Instant::now();
                if let Some(x) = l.strip_prefix("S ") {
                    c.case = x.trim().parse().ok();
                    c.last_p.clear();
                } else if l.starts_with("E ") {
                    c.case = None;
                } else if let Some(x) = l.strip_prefix("P ") {
                    c.last_p = x.to_string();
                } else if let Some(x) = l.strip_prefix("R ") {
                    match serde_json::from_str::<Value>(x) {
                        Ok(v) => rep.merge(Report::from_json(&v)),
                        Err(e) => rep.inconclusive(&format!("unparsable worker report: {e}")),
                    }
                } else if l == "DONE" {
                    c.done = true;
                }
            }
            Ok(Msg::Eof(i)) => {
                let status = children[i]
                    .proc
                    .wait()
                    .map(|s| format!("{s}"))
                    .unwrap_or("?".into());
                if children[i].done {
                    live -= 1;
                    continue;
                }
                // died mid-case
                let stderr = std::fs::read_to_string(&children[i].stderr_path).unwrap_or_default();
                let tail: String = stderr.lines().rev().take(60).collect::<Vec<_>>().into_iter().rev().collect::<Vec<_>>().join("\n");
                let (what, frame) = classify_death(&stderr, &status);
                let case = children[i].case;
                let killed_by_watchdog = children[i].killed_by_watchdog;
                let detail = format!(
                    "worker died ({status}) in case {:?} at [{}]: {what} in {frame}",
                    case, children[i].last_p
                );
                if killed_by_watchdog {
                    watchdog_kills += 1;
                    let (progress, frames, cpu_stuck) = children[i].hang.clone().unwrap_or_default();
                    let first = frames.iter().find(|f| f.contains("agdb::")).cloned().unwrap_or("unknown".into());
                    // only CPU time is a verdict: a case that burnt `hang_cpu_seconds` of CPU without a sign of progress
                    // is spinning; one that merely made no progress in wall-clock time may have been starved
                    let spinning = cpu_stuck > engine.hang_cpu_seconds();
                    match engine.hang_signature(&progress, &frames).filter(|_| spinning) {
                        Some(sig) => rep.violation(
                            &format!("{}:{sig}", engine.property()),
                            &format!("case {case:?} consumed {cpu_stuck:.0} s of CPU without progress at [{progress}]; the process was executing {first}"),
                            json!({"engine": args.pos.first(), "case": case, "seed": args.u64("seed", 1), "tier": args.str("tier","quick"),
                                   "progress": progress, "frames": frames.iter().take(25).collect::<Vec<_>>()}),
                        ),
                        None => rep.inconclusive(&format!("watchdog: case {case:?} made no progress for {}s / {cpu_stuck:.0}s of CPU (executing {first})", timeout.as_secs())),
                    }
                } else if engine.abort_is_violation() {
                    let pclass = children[i].last_p.split_whitespace().next().unwrap_or("").to_string();
                    rep.violation(
                        &format!("{}:abort:{what}:{frame}", engine.property()),
                        &detail,
                        json!({"engine": args.pos.first(), "case": case, "seed": args.u64("seed", 1), "tier": args.str("tier","quick"),
                               "progress": children[i].last_p, "progress_class": pclass, "stderr_tail": tail}),
                    );
                } else {
                    rep.inconclusive(&detail);
                }
                rep.count("worker_deaths");
                if !killed_by_watchdog {
                    // stuck cases have their own bound
                    deaths += 1;
                }
                // the case was explored up to the point where the worker died (what the worker had counted since its last
                // report is lost with it)
                rep.evaluations += 1;
                rep.distinct.insert(crate::rng::tag(&format!("case that ended with the death of its worker: {case:?}")));
                // a tree on which case after case hangs is not explored further: every stuck case costs the
                // whole watchdog time, and the run must end in bounded time with an inconclusive verdict
                let give_up = watchdog_kills >= max_watchdog_kills || deaths >= max_deaths;
                if deaths >= max_deaths {
                    let msg = format!("gave up after {deaths} worker deaths: the remaining cases of this run were not explored");
                    if !rep.coverage_fail.contains(&msg) {
                        rep.coverage_fail.push(msg);
                    }
                }
                if give_up && killed_by_watchdog {
                    let msg = format!("gave up after {watchdog_kills} cases that made no progress for {}s each: the remaining cases of this run were not explored", timeout.as_secs());
                    if !rep.coverage_fail.contains(&msg) {
                        rep.coverage_fail.push(msg);
                    }
                }
                match case {
                    Some(cn) if children[i].generation < 200 && !give_up => {
                        let generation = children[i].generation + 1;
                        children[i] = spawn(args, i, workers, cn + 1, &tx, &scratch, generation, engine.file_size_limit());
                        // what the dead worker left behind in its case directory is not needed any more
                        let _ = std::fs::remove_dir_all(format!("{}/c{cn}", args.str("scratch", "/nonexistent")));
                    }
                    _ => {
                        if case.is_none() {
                            rep.coverage_fail.push(format!("worker {i} died outside any case ({status}): {}", tail.lines().last().unwrap_or("")));
                        }
                        live -= 1;
                    }
                }
            }
            Err(mpsc::RecvTimeoutError::Timeout) => {}
            Err(mpsc::RecvTimeoutError::Disconnected) => break,
        }
    }
    engine.finish(args, &mut rep);
    let _ = std::fs::remove_dir_all(&scratch);
    rep
}

pub fn drive(engine: &dyn CaseEngine, args: &Args) -> Option<Report> {
    if args.kv.contains_key("worker") {
        worker_main(engine, args);
        None
    } else if args.kv.contains_key("case") {
        // single case in-process (replay of a generated case)
        let case = args.u64("case", 0) as usize;
        let mut rep = Report::new(engine.property(), &engine.rule());
        let cap = engine.alloc_cap();
        if cap > 0 {
            crate::alloccap::set_cap(cap);
        }
        engine.run_case(args, case, &mut rep, &|s| eprintln!("progress: {s}"));
        Some(rep)
    } else {
        Some(parent_main(engine, args))
    }
}
