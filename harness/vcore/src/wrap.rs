//! `MonStorage<S>`: a public-API `StorageData` wrapper that counts calls
//! (logical step budget = load-independent non-termination detector) and can
//! fail the k-th mutating call *before* delegating (fault injection).

use agdb::DbError;
use agdb::StorageData;
use agdb::StorageSlice;
use std::sync::Arc;
use std::sync::atomic::AtomicI64;
use std::sync::atomic::AtomicU64;
use std::sync::atomic::Ordering;

#[derive(Debug, Default)]
pub struct Ctl {
    pub reads: AtomicU64,
    pub writes: AtomicU64,
    pub resizes: AtomicU64,
    pub flushes: AtomicU64,
    /// total calls allowed before every call fails (0 = unlimited)
    pub budget: AtomicU64,
    pub budget_hit: AtomicU64,
    /// number of mutating calls (write/resize) still to succeed before one
    /// fails; negative = no fault armed
    pub fail_in: AtomicI64,
    pub faults_fired: AtomicU64,
    /// when set, every mutating call after the first fault also fails
    pub sticky: AtomicU64,
    /// number of flush calls still to succeed before one fails; negative = none armed
    pub fail_flush_in: AtomicI64,
    /// the in-repo function that was issuing storage calls when the budget ran out (first hit only)
    pub budget_hit_frame: std::sync::Mutex<Option<String>>,
}

/// first frame of the current backtrace that belongs to agdb but is not the storage-data layer itself
pub fn spinning_frame() -> String {
    let bt = std::backtrace::Backtrace::force_capture().to_string();
    for line in bt.lines() {
        let l = line.trim();
        let Some((_, f)) = l.split_once(": ") else { continue };
        if f.contains("agdb::") && !f.contains("vcore::") && !f.contains("StorageData") && !f.contains("::file_storage::") && !f.contains("::memory_storage::") && !f.contains("::any_storage::") {
            // strip the hash suffix and generic noise
            let f = f.rsplit_once("::h").map(|x| x.0).unwrap_or(f);
            return f.to_string();
        }
    }
    "unknown".to_string()
}

impl Ctl {
    pub fn new() -> Arc<Ctl> {
        let c = Ctl::default();
        c.fail_in.store(-1, Ordering::SeqCst);
        c.fail_flush_in.store(-1, Ordering::SeqCst);
        Arc::new(c)
    }
    pub fn steps(&self) -> u64 {
        self.reads.load(Ordering::Relaxed)
            + self.writes.load(Ordering::Relaxed)
            + self.resizes.load(Ordering::Relaxed)
    }
    pub fn mutating(&self) -> u64 {
        self.writes.load(Ordering::Relaxed) + self.resizes.load(Ordering::Relaxed)
    }
    pub fn reset_counts(&self) {
        self.reads.store(0, Ordering::Relaxed);
        self.writes.store(0, Ordering::Relaxed);
        self.resizes.store(0, Ordering::Relaxed);
        self.budget_hit.store(0, Ordering::Relaxed);
    }
    pub fn arm_fault(&self, after_k_mutating_calls: i64) {
        self.fail_in.store(after_k_mutating_calls, Ordering::SeqCst);
    }
    pub fn disarm(&self) {
        self.fail_in.store(-1, Ordering::SeqCst);
    }
    fn over_budget(&self) -> bool {
        let b = self.budget.load(Ordering::Relaxed);
        if b != 0 && self.steps() > b {
            if self.budget_hit.fetch_add(1, Ordering::Relaxed) == 0 {
                if let Ok(mut f) = self.budget_hit_frame.lock() {
                    *f = Some(spinning_frame());
                }
            }
            true
        } else {
            false
        }
    }
    fn should_fail(&self) -> bool {
        let v = self.fail_in.load(Ordering::SeqCst);
        if v < 0 {
            return false;
        }
        if v == 0 {
            if self.sticky.load(Ordering::Relaxed) == 0 {
                self.fail_in.store(-1, Ordering::SeqCst);
            }
            self.faults_fired.fetch_add(1, Ordering::SeqCst);
            return true;
        }
        self.fail_in.store(v - 1, Ordering::SeqCst);
        false
    }
}

pub struct MonStorage<S: StorageData> {
    pub inner: S,
    pub ctl: Arc<Ctl>,
}

impl<S: StorageData> MonStorage<S> {
    pub fn wrap(inner: S, ctl: Arc<Ctl>) -> Self {
        MonStorage { inner, ctl }
    }
}

fn budget_err() -> DbError {
    DbError::storage(agdb::DbErrorType::NotAllowed, "verif: storage step budget exceeded")
}
fn fault_err() -> DbError {
    DbError::storage(agdb::DbErrorType::NotAllowed, "verif: injected storage fault (disk full)")
}

impl<S: StorageData> StorageData for MonStorage<S> {
    fn backup(&self, name: &str) -> Result<(), DbError> {
        self.inner.backup(name)
    }
    fn copy(&self, name: &str) -> Result<Self, DbError> {
        Ok(MonStorage {
            inner: self.inner.copy(name)?,
            ctl: self.ctl.clone(),
        })
    }
    fn flush(&mut self) -> Result<(), DbError> {
        self.ctl.flushes.fetch_add(1, Ordering::Relaxed);
        let v = self.ctl.fail_flush_in.load(Ordering::SeqCst);
        if v == 0 {
            self.ctl.fail_flush_in.store(-1, Ordering::SeqCst);
            self.ctl.faults_fired.fetch_add(1, Ordering::SeqCst);
            return Err(fault_err());
        } else if v > 0 {
            self.ctl.fail_flush_in.store(v - 1, Ordering::SeqCst);
        }
        self.inner.flush()
    }
    fn len(&self) -> u64 {
        self.inner.len()
    }
    fn name(&self) -> &str {
        self.inner.name()
    }
    fn new(name: &str) -> Result<Self, DbError> {
        Ok(MonStorage {
            inner: S::new(name)?,
            ctl: Ctl::new(),
        })
    }
    fn read(&'_ self, pos: u64, value_len: u64) -> Result<StorageSlice<'_>, DbError> {
        self.ctl.reads.fetch_add(1, Ordering::Relaxed);
        if self.ctl.over_budget() {
            return Err(budget_err());
        }
        self.inner.read(pos, value_len)
    }
    fn rename(&mut self, new_name: &str) -> Result<(), DbError> {
        self.inner.rename(new_name)
    }
    fn resize(&mut self, new_len: u64) -> Result<(), DbError> {
        self.ctl.resizes.fetch_add(1, Ordering::Relaxed);
        if self.ctl.over_budget() {
            return Err(budget_err());
        }
        if self.ctl.should_fail() {
            return Err(fault_err());
        }
        self.inner.resize(new_len)
    }
    fn write(&mut self, pos: u64, bytes: &[u8]) -> Result<(), DbError> {
        self.ctl.writes.fetch_add(1, Ordering::Relaxed);
        if self.ctl.over_budget() {
            return Err(budget_err());
        }
        if self.ctl.should_fail() {
            return Err(fault_err());
        }
        self.inner.write(pos, bytes)
    }
}
