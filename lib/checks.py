"""Table of checks: which engine(s) decide which property. Also the source of MANIFEST.json
(see gen_manifest.py)."""

DBH = "{target}/debug/dbh"


def dbh(engine, quick=None, thorough=None):
    def steps(tier):
        extra = (thorough if tier == "thorough" else quick) or []
        return [{"cmd": [DBH, engine] + extra}]
    return steps


CHECKS = {}


def add(pid, level, build, steps, technique, text, note, design_ref, replay_bin=DBH, engine="dbh"):
    CHECKS[pid] = {
        "level": level, "build": build, "steps": steps, "technique": technique,
        "text": text, "note": note, "design_ref": design_ref, "replay_bin": replay_bin,
        "engine": engine,
    }


add("C01", "fault_enumeration", ["dbh"], dbh("c01", ["--n", "600"], ["--n", "6000"]),
    "crash-point enumeration over hooked file-system calls + recovery oracle",
    "Every prefix of the mutating file-system calls (hooked in FileStorage/WriteAheadLog) of generated storage programs is "
    "materialised as a pair of files and reopened with the real recovery code; the recovered content must equal the content "
    "recorded at the last completed outermost transaction. Exhaustive over crash points of each program, sampled over programs.",
    "Trusts the fs_event hooks to see every mutating call (self-checked: shadow images must equal the real files after every run); "
    "crash granularity is one system call (byte tears of log appends in the thorough tier); no OS write reordering.",
    "DESIGN.md §6 C01, §5.5")

add("C04", "exploration", ["dbh"], dbh("c04", ["--n", "6000"], ["--n", "60000", "--len", "200"]),
    "reference-model monitor (byte map) over random storage histories on three back-ends",
    "Random histories of storage-layer operations on the three back-ends, each step compared with a byte-map model: every live value "
    "equal, removed values unreadable, fresh indexes not in use, packed length after optimize, everything preserved by reopen.",
    "Operations are issued on live indexes (plus reads of removed ones); held on the histories generated, nothing more.",
    "DESIGN.md §6 C04")


HIST_NOTE = ("The reference model encodes the documented query semantics (agdb_web/content/docs/03.references/01.queries.md); ids are adopted "
             "from the implementation. Held on the generated histories (<= ~12 nodes plus occasional bursts of 70-150 elements), nothing more.")

for pid, what in [
    ("C08", "node/edge ids (sign, slot not in use), endpoints, node count, per-node edge counts, adjacency, cascade on node removal, rejected edges to missing nodes"),
    ("C09", "per-element ordered key-value map: replace in place / append, key removal, select all / keys / key count, insert-or-update forms"),
    ("C10", "alias <-> node bijection observed both ways (select aliases, select aliases ids, resolving every alias string ever used), rejection of empty aliases and edge aliases without effect"),
    ("C11", "index listing counts and index search contents for every (indexed key, value in the domain) pair, back-fill on creation, duplicate creation rejected"),
]:
    add(pid, "exploration", ["dbh"], dbh("hist_" + pid.lower(), ["--n", "2400"], ["--n", "30000", "--len", "160"]),
        "reference-model monitor over generated query histories + full canonical dump comparison after every query",
        "Seeded hostile histories on all six database variants; every mutating query is predicted by the reference model and the full "
        "canonical dump is compared after every query. This check owns the monitor classes for: " + what + ".",
        HIST_NOTE, "DESIGN.md §6 " + pid + ", §5.1-5.3")

add("C13", "exploration", ["dbh"], dbh("c13", ["--n", "2400"], ["--n", "30000", "--rounds", "30"]),
    "before/after canonical-dump comparison around rolled-back transactions and failing queries",
    "Histories alternating committed queries with mutable transactions of 1-8 generated queries that are rolled back (closure error or "
    "failing query) and single queries failing after partial work; the order-insensitive dump after must equal the dump before.",
    HIST_NOTE, "DESIGN.md §6 C13")

add("C19", "exploration", ["dbh"], dbh("c19", ["--n", "800"], ["--n", "8000", "--rounds", "60"]),
    "logical step-budget monitor (storage-call counter in a StorageData wrapper) over tombstone-saturating histories",
    "Insert/remove cycles over many distinct hashed keys (aliases, indexed values, property keys, index keys), rolled-back transactions "
    "and generic hostile histories on DbImpl<MonStorage<..>>: no query may exceed 3,000,000 storage calls (observed maximum is reported; "
    "it is three orders of magnitude below). Wall-clock is not part of the verdict.",
    "A loop that makes no storage call would not be seen by the counter (the per-case wall-clock watchdog reports that as inconclusive).",
    "DESIGN.md §6 C19, §5.4")


def multi(*engines):
    def steps(tier):
        n = "30000" if tier == "thorough" else "2400"
        return [{"cmd": [DBH, e, "--n", n]} for e in engines]
    return steps


add("C14", "exploration", ["dbh"], dbh("c14", ["--random", "24000"], ["--random", "300000"]),
    "oracle = the property statement over exhaustive small graphs + random graphs, against an independent traversal reference",
    "Every multigraph with <= 3 nodes and <= 4 edges by every insertion sequence (7,727 graphs, exhaustive) plus random graphs with removals and "
    "id reuse; every node and edge as origin, BFS/DFS forward/reverse: origin first, result set = reachable set, no duplicates, BFS distances "
    "non-decreasing, each node's edges newest first, DFS = recursive pre-order.",
    "Graphs larger than ~10 nodes / 40 edges are outside the budget.", "DESIGN.md §6 C14")
add("C15", "exploration", ["dbh"], dbh("c15", ["--n", "24000"], ["--n", "300000"]),
    "reference condition evaluator (documented truth tables, type-strict comparisons) over random condition trees; any-of over the 4 readings of documented-ambiguous corners",
    "Random (graph, condition tree, algorithm, origin) triples; the result must equal the reference result under at least one admissible reading of "
    "the two corners the documentation leaves open. Mismatches are minimised to a single culprit condition for the signature.",
    "Where the documentation is ambiguous (beyond/not_beyond with or; beyond at the origin) either reading is accepted.", "DESIGN.md §6 C15")
add("C16", "exploration", ["dbh"], dbh("c16", ["--n", "24000"], ["--n", "300000"]),
    "relative oracle: slice and stable-sort laws against the implementation's own unsliced / unordered result",
    "Random searches of every kind with limit/offset in 0..n+3 and 0-3 order keys: never an error or panic, sliced result = the right window of the "
    "unsliced one, ordered result = stable sort (missing keys last) of the unordered one.",
    "Order across different value types under one key is not specified and is not judged (permutation and slicing still are).", "DESIGN.md §6 C16")
add("C17", "exploration", ["dbh"], dbh("c17", ["--random", "24000"], ["--random", "300000"]),
    "reference Dijkstra over element costs + product-graph witness search",
    "All small multigraphs x all node pairs (exhaustive) and random graphs with random distance-independent condition sets: the result must be the "
    "passing projection of a minimum-cost usable path, and empty exactly when no usable path exists / an endpoint is not a node / endpoints are equal.",
    "Distance conditions are not generated (element cost would depend on position); conditions that stop at the origin are not generated.", "DESIGN.md §6 C17")
add("C18", "exploration", ["dbh"], multi("hist_c18", "c18s"),
    "reference-model monitor: elements search order and selection after histories with removals and id reuse",
    "Histories with removals and id reuse compared with the model after every query (elements search = ids by increasing magnitude, each once, no "
    "removed element), plus elements searches with condition trees, limits and offsets against the reference evaluator.",
    "Conditions referring to distance or traversal control are not generated for elements searches.", "DESIGN.md §6 C18")

for pid, what in [
    ("C02", "every snapshot opens with Db, DbFile, DbAny::new_file and DbAny::new_mapped and the complete canonical dump (every element, property, alias, index) succeeds without error or panic"),
    ("C03", "the exact canonical dump of the recovered database equals the dump before or after the interrupted query / transaction"),
]:
    add(pid, "fault_enumeration", ["dbh"], dbh("crash_" + pid.lower(), None, ["--n", "160"]),
        "crash-point enumeration over hooked file-system calls of generated query histories + recovery oracle",
        "Generated histories (queries, committed and rolled-back multi-query transactions, rename, close+reopen with defragmentation) recorded through the "
        "fs_event hooks; every prefix of the mutating file-system calls (an even sample for histories with more than ~1200 calls in the quick tier) "
        "is materialised and reopened with the real code: " + what + ". Before every 37th call the real files are also copied as found under the "
        "database's current name and, where they differ from the materialised images, put through the same oracle.",
        "Trusts the fs_event hooks to see every mutating call (self-checked against the real files after every recorded run); crash granularity "
        "is one system call; no OS write reordering; creation of the empty database is outside the quantifier.",
        "DESIGN.md §6 " + pid + ", §5.5")

add("C05", "exploration", ["dbh"], dbh("c05", ["--n", "1600"], ["--n", "20000", "--steps", "30"]),
    "exact canonical-dump equality across random maintenance sequences",
    "Generated histories followed by random sequences of reopen (every file-backed variant), optimize_storage, shrink_to_fit, backup (opened as "
    "Db/DbFile/DbMemory), copy, rename; the exact dump (ids, result order, properties in order, aliases, index listing order and contents, "
    "adjacency order) must equal the dump taken before; small mutating transactions between the maintenance steps (the reference dump is then re-taken) "
    "so that what is written after a maintenance operation must survive the following ones.",
    "Dumps are taken through public queries only; databases up to a few hundred elements.", "DESIGN.md §6 C05")
add("C06", "exploration", ["dbh"], dbh("c06", ["--n", "200"], ["--n", "2000", "--len", "80"]),
    "lock-step differential execution on the six database variants",
    "The same generated history (incl. failing queries, rolled back transactions, values above 64 KiB and bursts above 8192 nodes) executed on "
    "DbMemory, DbFile, Db and the three DbAny kinds: equal QueryResult or all Err after every query, equal exact dumps periodically and at the end.",
    "Error texts are not compared. The memory variant is the reference for the generator's model.", "DESIGN.md §6 C06")
add("C12", "exploration", ["dbh"], dbh("c12", ["--random-cases", "200"], ["--random-cases", "3000"]),
    "bitwise read-back of an enumerated boundary value set + random values on every variant and read path",
    "A finite boundary set (lengths 0..40 around the 15/16-byte inline limit, multi-byte characters, integer extremes, all float classes incl. "
    "NaN payloads, vectors of length 0..5) enumerated completely plus random values, each as key and as value, on four variants, read back live, "
    "after reopen and after backup->DbMemory; equality is bitwise.",
    "NaN used as a key is looked up by listing (select all / keys); a failing select-by-key for a NaN key is counted, not judged.", "DESIGN.md §6 C12")

add("C20", "exploration", ["dbh"], dbh("c20", ["--n", "4800"], ["--n", "60000"]),
    "round-trip / size oracle over generated values of every serializable type incl. a derived-type corpus",
    "Generated values of every built-in AgdbSerialize implementation, every query struct (through QueryType) and a corpus of derived user types: "
    "deserialize(serialize(x)) == x, byte-identical re-serialization, serialized_size == produced length.",
    "PathBuf values are UTF-8 (lossy conversion of non-UTF-8 paths is outside the statement); Option<T> has no implementation and is not covered.",
    "DESIGN.md §6 C20")
add("C21", "exploration", ["dbh"], dbh("c21", ["--n", "4800"], ["--n", "60000", "--inputs", "300"]),
    "panic monitor + allocation-cap allocator over mutated and random inputs to every deserializer",
    "51 deserializers (built-in, query structs, derived types, typed conversions of byte-array values) fed random bytes, structure-aware mutations of "
    "valid encodings and length-prefix extremes in worker processes: no panic, no abort, no single allocation request above 64 MiB (inputs < 1 KiB; the "
    "largest legitimate request is reported).",
    "Dev profile (overflow checks and debug assertions on), which is what cargo build/test use; release is not run here.", "DESIGN.md §6 C21")

add("C07", "exploration", ["dbh"], dbh("c07", ["--n", "96"], ["--n", "1000", "--mutants", "200"]),
    "panic monitor + allocation-cap allocator over structure-aware mutants of valid file pairs, in worker processes",
    "Valid data-file / write-ahead-log pairs (closed and mid-transaction) mutated structure-aware and opened with Db, DbFile and DbMemory, then read "
    "completely: no panic, no abort, no allocation request above 64 MiB for files of a few KiB. Known, unrepaired crash sites are listed in "
    "known_findings.json by call site; any other site is a violation.",
    "Dev profile. A mutant that makes a read loop forever is reported as inconclusive (watchdog), not as a C07 violation (termination is C19).",
    "DESIGN.md §6 C07")

add("C22", "exploration", ["dbh"], dbh("c22", ["--n", "480"], ["--n", "8000"]),
    "read-back equality and targeted-update oracle over a corpus of derived user types",
    "A corpus of types deriving DbType / DbValue / DbTypeMarker / DbSerialize (scalars, all vector kinds, Option fields, enum and struct value types, "
    "vectors of them, both id field types, rename, skip, flatten) with generated field values, inserted in batches and singly on three variants, "
    "selected back as the type and updated through the id field (update visible, exact dump of all other elements unchanged).",
    "An update that turns Some(x) into None is not judged: None fields are not written, and the property does not state that an absent field removes a stored key.",
    "DESIGN.md §6 C22")

add("C32", "fault_enumeration", ["dbh"], dbh("c32", ["--n", "24"], ["--n", "200"]),
    "fault injection at storage calls through a public StorageData wrapper + before/after dump, model monitors and reopen oracle",
    "For generated histories, the k-th write/resize call (a sample per query in the quick tier, every call in the thorough tier) and every log "
    "truncation (flush) of one query fails once: the query must return Err, leave no effect (order-insensitive dump), later valid queries must "
    "succeed with the model monitors holding, and everything must survive close + reopen with plain DbFile. Write/resize faults are a known, "
    "unrepaired finding (KF-C32-1); flush faults and 'faulted query reports success' are live verdicts.",
    "Faults are injected before the call reaches the real storage, so file and memory halves never diverge by themselves.", "DESIGN.md §6 C32")

add("C23", "exploration", ["dbh"], dbh("c23", ["--n", "9", "--workers", "3"], ["--n", "60", "--workers", "2"]),
    "result comparison of concurrent readers against a sequential baseline, with hooked read-path counters and a seek/read gap hook",
    "Fixed databases behind Arc<RwLock<_>> on DbFile, DbAny::new_file and Db; 16 (thorough 48) reader threads run random read queries and read "
    "transactions under the read lock while the read-gap hook yields between seek and read; every result must equal the sequential baseline; in every other case a further thread takes backups and copies under the "
    "read lock next to the readers (they must succeed, the last backup must answer every read identically). "
    "Evidence shows the numbers of locked and fallback-handle file reads observed.",
    "Interleavings are those the OS scheduler produces on 16 cores with the widened window; a specific interleaving cannot be forced.",
    "DESIGN.md §6 C23")


RAFTH = "{target}/debug/rafth"


def rafth(engine, quick=None, thorough=None):
    def steps(tier):
        extra = (thorough if tier == "thorough" else quick) or []
        return [{"cmd": [RAFTH, engine] + extra}]
    return steps


RAFT_NOTE = ("raft.rs is the real source, copied at build time with `use std::time::Instant` replaced by a virtual clock and a read-only probe impl "
             "appended (the build fails, i.e. the check is inconclusive, if that line is not found). Transport and log storage are simulated: the "
             "storage is an in-memory mirror of ClusterStorage/ClusterLog (truncate-uncommitted-on-append, commit-marks-uncommitted-up-to-index, "
             "logs_since by stored count). Random and priority-driven schedules, not exhaustive at any bound.")
for pid, what in [
    ("C27", "no two nodes are ever observed in Leader state with the same term (monitor after every action; the witness names which voter granted which votes)"),
    ("C28", "no two nodes commit different entries at one index, a committed entry is never removed or replaced on a node, commit indexes never decrease"),
    ("C29", "every node that enters Leader state holds, at the same index, every entry that an earlier leader committed while being leader"),
]:
    add(pid, "exploration", ["rafth"], rafth(pid.lower(), ["--n", "320"], ["--n", "12000", "--runs", "40"]),
        "invariant monitors after every scheduler action of a simulator driving the real raft.rs under a virtual clock and adversarial / transport-faithful networks",
        "Seeded runs of up to 400 actions (tick incl. clock jumps, deliver, drop, duplicate, isolate, heal, client append at a leader) on 3- and 5-node "
        "clusters, two network models x four schedulers; monitor: " + what + ".",
        RAFT_NOTE, "DESIGN.md §6 " + pid + ", §5.10", replay_bin=RAFTH, engine="rafth")
add("C30", "exploration", ["rafth"], rafth("c30", ["--n", "1200"], ["--n", "40000"]),
    "bounded-progress monitor in virtual time on fault-free schedules of the raft simulator",
    "Liveness restated as bounded progress: on fault-free schedules (bounded random delays, arbitrary order, no loss) from the initial state and after "
    "faulty prefixes, a single stable leader must exist within H = 20 x (term_timeout + N x election_factor) virtual ms and entries appended at it must "
    "be committed on all nodes within H. An unbounded 'eventually' is out of reach for runtime monitoring; H is an order of magnitude above what the timers need.",
    RAFT_NOTE, "DESIGN.md §6 C30, §5.10", replay_bin=RAFTH, engine="rafth")


SRVH = "{target}/srvh/debug/srvh"


def c28_steps(tier):
    th = tier == "thorough"
    return [
        {"cmd": [RAFTH, "c28", "--n", "12000" if th else "320"] + (["--runs", "40"] if th else [])},
        # validation of the simulator's storage mirror against the real ClusterStorage
        {"cmd": [SRVH, "simlog", "--n", "200" if th else "24", "--workers", "8"]},
    ]


CHECKS["C28"]["build"] = ["rafth", "srvh"]
CHECKS["C28"]["steps"] = c28_steps


def c31_steps(tier):
    th = tier == "thorough"
    return [{"cmd": [SRVH, "c31", "--n", "300" if th else "30", "--workers", "4"] + (["--logs", "100"] if th else [])}]


add("C31", "exploration", ["srvh"], c31_steps,
    "state-based ordering / exactly-once oracle on the real ClusterStorage compiled into the harness, multi-thread runtime",
    "The server's unmodified sources are compiled together with a driver (generated crate), giving access to the real ServerDb, ClusterLog, DbPool and "
    "ClusterStorage: uniquely tagged, order-sensitive actions are appended and committed at once, one by one, interleaved, replayed by a restart, or executed completely and then restarted (nothing may run again; some "
    "actions fail at their place in the log and would succeed if re-executed later), on runtimes with "
    "2-16 workers; the ids the databases assign record the execution order: it must be the log order, each action exactly once, and the state must equal "
    "that of a sequential reference instance.",
    "Single node storage path (the place where committed entries are executed); the HTTP layer and inter-node transport are not part of this check.",
    "DESIGN.md §6 C31, §5.9", replay_bin=SRVH, engine="srvh")


def http_steps(engine, quick, thorough):
    def steps(tier):
        return [{"cmd": [SRVH, engine, "--workers", "8"] + (thorough if tier == "thorough" else quick)}]
    return steps


add("C24", "exploration", ["agdb_server", "srvh"], http_steps("c24", ["--n", "6", "--requests", "400"], ["--n", "48", "--requests", "1500"]),
    "permission reference model + state probe over a real agdb_server process (HTTP, generated multi-user request sequences)",
    "The real server binary built from the working tree is started per case in a scratch directory; generated sequences of requests by users with "
    "every relation to the target (owner, admin / write / read role, stranger, server admin, no token, garbage token, logged-out token, token of a "
    "deleted user) cover the database and role endpoints; a model of the documented permission table decides 'permitted'; requests that are not "
    "permitted must be rejected and leave the admin-API state probe unchanged; role changes and logouts that returned 2xx must be effective at once; "
    "tokens are sent in both spellings the server accepts (plain and double-quoted).",
    "Sequential requests on one node; expiry of tokens by time is exercised in the thorough tier only (one case with the minimum expiry of 60 s); the quick tier covers logout and user deletion.",
    "DESIGN.md §6 C24", replay_bin=SRVH, engine="srvh")

add("C25", "exploration", ["agdb_server", "srvh"], http_steps("c25", ["--n", "6", "--batches", "150"], ["--n", "32", "--batches", "600"]),
    "differential twin (in-process DbMemory with an independent result-injection implementation) + audit log checker over a real agdb_server process",
    "Generated batches with reads, writes, failing queries at every position and ':i' result references are submitted through exec and exec_mut by two "
    "users; an in-process twin database decides success and the expected results; after every batch the server's state fingerprint must equal the "
    "twin's (all-or-nothing), and the audit endpoint must list exactly the mutating queries of the applied batches, in order, with the submitting user; file-backed cases end with a server restart after which both must still hold.",
    "Memory, mapped and file database kinds; one node.",
    "DESIGN.md §6 C25", replay_bin=SRVH, engine="srvh")

add("C26", "exploration", ["agdb_server", "srvh"], http_steps("c26", ["--n", "4", "--requests", "220"], ["--n", "24", "--requests", "500"]),
    "strace file-system call monitor + canary files + name-to-file collision checker over a real agdb_server process driven through raw sockets",
    "The real server runs under strace -f; hostile database names (separators, dot segments, absolute paths, reserved directory and file names, "
    "percent-encoded forms) are sent through a raw-socket HTTP client to add / backup / copy / rename / restore / clear / delete; every mutating "
    "file-system call must stay inside the owner's directory, no request may touch a file held by another live database (identities tracked across renames), "
    "canaries must stay unchanged; the server admin moves and copies databases between two owners and every file of a database must then lie in its current owner's directory.",
    "Linux path semantics only.",
    "DESIGN.md §6 C26", replay_bin=SRVH, engine="srvh")
