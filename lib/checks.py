"""Table of checks: which engine(s) decide which property. Also the source of MANIFEST.json
(see gen_manifest.py)."""

DBH = "{target}/debug/dbh"


def dbh(engine, quick=None, thorough=None):
    def steps(tier):
        extra = (thorough if tier == "thorough" else quick) or []
        return [{"cmd": [DBH, engine] + extra}]
    return steps


CHECKS = {}


def add(pid, level, build, steps, technique, text, note, design_ref, replay_bin=DBH, engine="dbh"):
    CHECKS[pid] = {
        "level": level, "build": build, "steps": steps, "technique": technique,
        "text": text, "note": note, "design_ref": design_ref, "replay_bin": replay_bin,
        "engine": engine,
    }


add("C01", "fault_enumeration", ["dbh"], dbh("c01"),
    "crash-point enumeration over hooked file-system calls + recovery oracle",
    "Every prefix of the mutating file-system calls (hooked in FileStorage/WriteAheadLog) of generated storage programs is "
    "materialised as a pair of files and reopened with the real recovery code; the recovered content must equal the content "
    "recorded at the last completed outermost transaction. Exhaustive over crash points of each program, sampled over programs.",
    "Trusts the fs_event hooks to see every mutating call (self-checked: shadow images must equal the real files after every run); "
    "crash granularity is one system call (byte tears of log appends in the thorough tier); no OS write reordering.",
    "DESIGN.md §6 C01, §5.5")

add("C04", "exploration", ["dbh"], dbh("c04"),
    "reference-model monitor (byte map) over random storage histories on three back-ends",
    "Random histories of storage-layer operations on the three back-ends, each step compared with a byte-map model: every live value "
    "equal, removed values unreadable, fresh indexes not in use, packed length after optimize, everything preserved by reopen.",
    "Operations are issued on live indexes (plus reads of removed ones); held on the histories generated, nothing more.",
    "DESIGN.md §6 C04")


HIST_NOTE = ("The reference model encodes the documented query semantics (agdb_web/content/docs/03.references/01.queries.md); ids are adopted "
             "from the implementation. Held on the generated histories (<= ~12 nodes plus occasional bursts of 70-150 elements), nothing more.")

for pid, what in [
    ("C08", "node/edge ids (sign, slot not in use), endpoints, node count, per-node edge counts, adjacency, cascade on node removal, rejected edges to missing nodes"),
    ("C09", "per-element ordered key-value map: replace in place / append, key removal, select all / keys / key count, insert-or-update forms"),
    ("C10", "alias <-> node bijection observed both ways (select aliases, select aliases ids, resolving every alias string ever used), rejection of empty aliases and edge aliases without effect"),
    ("C11", "index listing counts and index search contents for every (indexed key, value in the domain) pair, back-fill on creation, duplicate creation rejected"),
]:
    add(pid, "exploration", ["dbh"], dbh("hist_" + pid.lower()),
        "reference-model monitor over generated query histories + full canonical dump comparison after every query",
        "Seeded hostile histories on all six database variants; every mutating query is predicted by the reference model and the full "
        "canonical dump is compared after every query. This check owns the monitor classes for: " + what + ".",
        HIST_NOTE, "DESIGN.md §6 " + pid + ", §5.1-5.3")

add("C13", "exploration", ["dbh"], dbh("c13"),
    "before/after canonical-dump comparison around rolled-back transactions and failing queries",
    "Histories alternating committed queries with mutable transactions of 1-8 generated queries that are rolled back (closure error or "
    "failing query) and single queries failing after partial work; the order-insensitive dump after must equal the dump before.",
    HIST_NOTE, "DESIGN.md §6 C13")

add("C19", "exploration", ["dbh"], dbh("c19"),
    "logical step-budget monitor (storage-call counter in a StorageData wrapper) over tombstone-saturating histories",
    "Insert/remove cycles over many distinct hashed keys (aliases, indexed values, property keys, index keys), rolled-back transactions "
    "and generic hostile histories on DbImpl<MonStorage<..>>: no query may exceed 3,000,000 storage calls (observed maximum is reported; "
    "it is three orders of magnitude below). Wall-clock is not part of the verdict.",
    "A loop that makes no storage call would not be seen by the counter (the per-case wall-clock watchdog reports that as inconclusive).",
    "DESIGN.md §6 C19, §5.4")
