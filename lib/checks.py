"""Table of checks: which engine(s) decide which property. Also the source of MANIFEST.json
(see gen_manifest.py)."""

DBH = "{target}/debug/dbh"


def dbh(engine, quick=None, thorough=None):
    def steps(tier):
        extra = (thorough if tier == "thorough" else quick) or []
        return [{"cmd": [DBH, engine] + extra}]
    return steps


CHECKS = {}


def add(pid, level, build, steps, technique, text, note, design_ref, replay_bin=DBH, engine="dbh"):
    CHECKS[pid] = {
        "level": level, "build": build, "steps": steps, "technique": technique,
        "text": text, "note": note, "design_ref": design_ref, "replay_bin": replay_bin,
        "engine": engine,
    }


add("C01", "fault_enumeration", ["dbh"], dbh("c01"),
    "crash-point enumeration over hooked file-system calls + recovery oracle",
    "Every prefix of the mutating file-system calls (hooked in FileStorage/WriteAheadLog) of generated storage programs is "
    "materialised as a pair of files and reopened with the real recovery code; the recovered content must equal the content "
    "recorded at the last completed outermost transaction. Exhaustive over crash points of each program, sampled over programs.",
    "Trusts the fs_event hooks to see every mutating call (self-checked: shadow images must equal the real files after every run); "
    "crash granularity is one system call (byte tears of log appends in the thorough tier); no OS write reordering.",
    "DESIGN.md §6 C01, §5.5")

add("C04", "exploration", ["dbh"], dbh("c04"),
    "reference-model monitor (byte map) over random storage histories on three back-ends",
    "Random histories of storage-layer operations on the three back-ends, each step compared with a byte-map model: every live value "
    "equal, removed values unreadable, fresh indexes not in use, packed length after optimize, everything preserved by reopen.",
    "Operations are issued on live indexes (plus reads of removed ones); held on the histories generated, nothing more.",
    "DESIGN.md §6 C04")
