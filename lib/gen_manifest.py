#!/usr/bin/env python3
"""Writes /verif/MANIFEST.json from lib/checks.py and lib/not_applicable.json."""
import json
import os
import subprocess
import sys

ROOT = os.path.dirname(os.path.dirname(os.path.abspath(__file__)))
sys.path.insert(0, os.path.join(ROOT, "lib"))
from checks import CHECKS  # noqa: E402

props = [json.loads(l) for l in open(os.path.join(ROOT, "properties.jsonl"))]
ids = [p["id"] for p in props]
na_path = os.path.join(ROOT, "lib", "not_applicable.json")
na = json.load(open(na_path)) if os.path.exists(na_path) else {}

hooks = subprocess.run(["git", "-C", "/repo", "log", "--format=%H %s"], capture_output=True, text=True).stdout.splitlines()
hook_commits = [l.split()[0] for l in hooks if " verif hooks" in l or l.split(" ", 1)[1].startswith("verif hook")]

checks = []
for pid in ids:
    if pid not in CHECKS:
        continue
    c = CHECKS[pid]
    checks.append({
        "property_id": pid,
        "quick_cmd": f"./vcheck run {pid} quick",
        "thorough_cmd": f"./vcheck run {pid} thorough",
        "evidence_file": f"/verif/evidence/{pid}.json",
        "replay_cmd_template": "./vcheck replay {path}",
        "engine": c["engine"],
        "level_claimed": {"category": c["level"], "text": c["text"], "design_ref": c["design_ref"]},
        "level_note": c["note"],
        "technique": c["technique"],
    })

not_applicable = []
for pid in ids:
    if pid not in CHECKS:
        not_applicable.append({"property_id": pid, "reason": na.get(pid, "check not built yet; the engine for this property is still under construction (see DESIGN.md)")})

manifest = {
    "version": 1,
    "setup_cmd": "./vcheck setup",
    "hooks": {
        "guard": "agdb_verif",
        "enable": "rustc --cfg agdb_verif (set in /verif/harness/.cargo/config.toml build.rustflags; the harness builds /repo/agdb by path dependency into /verif/target)",
        "baseline_off_cmd": "cd /repo && cargo nextest run --workspace --no-fail-fast --test-threads 8 --offline || cargo test --workspace --no-fail-fast --offline",
        "source_commits": hook_commits,
        "add_only": True,
    },
    "engines": [
        {"name": "dbh", "path": "harness/dbh", "serves_properties": [p for p in ids if p in CHECKS and CHECKS[p]["engine"] == "dbh"],
         "kind_free_text": "Rust binary linking /repo/agdb (cfg agdb_verif): case engines run in worker subprocesses under a panic monitor, an allocation-cap allocator and storage step/fault wrappers; reference-model and crash-point oracles"},
        {"name": "srvh", "path": "harness/srvh_src (generated crate harness/srvh, see lib/gen_srvh.py)", "serves_properties": ["C24", "C25", "C26", "C28", "C31"],
         "kind_free_text": "the server's own unmodified modules compiled together with two drivers: (driver.rs) real ClusterStorage / ClusterLog / ServerDb / DbPool on a multi-thread tokio runtime; ordering oracle (C31) and validation of the raft simulator's storage mirror (C28); (http_driver.rs) starts the real agdb_server binary built from the working tree and drives it over HTTP: permission model + state probe (C24), DbMemory twin + audit checker (C25), raw-socket hostile names under strace with per-request file-system call attribution (C26)"},
        {"name": "rafth", "path": "harness/rafth", "serves_properties": [p for p in ids if p in CHECKS and CHECKS[p]["engine"] == "rafth"],
         "kind_free_text": "Rust binary that includes the real agdb_server/src/raft.rs (clock substituted at build time) in a virtual-time simulator with adversarial and transport-faithful networks; invariant and bounded-progress monitors"},
    ],
    "checks": checks,
    "not_applicable": not_applicable,
    "notes": "Runtime monitoring only. Orchestrator: ./vcheck (python3 stdlib). Known findings: known_findings.json. VERIF_SEED selects the PRNG root.",
}
json.dump(manifest, open(os.path.join(ROOT, "MANIFEST.json"), "w"), indent=1)
print("MANIFEST.json:", len(checks), "checks,", len(not_applicable), "not claimed")
