#!/bin/bash
# all seeds against their checks
cd /verif
for d in $(ls seeded | sort); do
  p=$(echo $d | sed -E 's/r[0-9]+$//; s/b$//')
  [ "$d" = "C06r2" ] && p=C23
  [ "$d" = "C28r3" ] && p=C29
  if grep -q obsolete seeded/$d/meta.json 2>/dev/null; then echo "$d obsolete"; continue; fi
  out=$(bash lib/seedtest.sh /verif/seeded/$d $p 2>&1)
  if echo "$out" | grep -q "^VIOLATION"; then echo "$d -> $p CAUGHT :: $(echo "$out" | grep 'violation:' | head -1 | cut -c1-150)"; else echo "$d -> $p MISSED :: $(echo "$out" | tail -1 | cut -c1-200)"; fi
done
