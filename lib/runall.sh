#!/bin/bash
# usage: runall.sh <tier> <seed> [props...]
tier=$1; seed=$2; shift 2
props="$@"
[ -z "$props" ] && props=$(python3 -c "import json; print(' '.join(c['property_id'] for c in json.load(open('/verif/MANIFEST.json'))['checks']))")
cd /verif
for p in $props; do
  s=$(date +%s)
  out=$(VERIF_SEED=$seed ./vcheck run $p $tier 2>&1); rc=$?
  e=$(date +%s)
  echo "$p rc=$rc t=$((e-s))s :: $(echo "$out" | grep -c '^KNOWN-FINDING') known :: $(echo "$out" | grep -E '^VIOLATION|INCONCLUSIVE' | head -3 | tr '\n' ' ') $(echo "$out" | tail -1 | cut -c1-160)"
done
