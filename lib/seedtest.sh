#!/bin/bash
# usage: lib/seedtest.sh <seed dir with patch.diff> <PROP> [tier]   -- applies the patch to /repo, runs the check, reverts
set -u
dir=$1; prop=$2; tier=${3:-quick}
cd /repo || exit 2
if ! git diff --quiet; then echo "repo dirty"; exit 2; fi
if ! git apply --3way "$dir/patch.diff" 2>/tmp/seed_apply.err; then echo "patch does not apply: $(head -3 /tmp/seed_apply.err)"; git reset -q --hard HEAD; exit 3; fi
git reset -q
cd /verif
VERIF_SEED=${VERIF_SEED:-1} ./vcheck run "$prop" "$tier" | tail -6
rc=$?
cd /repo && git checkout -- . && git status --short | head -3
exit 0
