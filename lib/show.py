import json,sys
d=json.load(open(sys.argv[1]))
print({k:d[k] for k in ['evaluations','distinct_nontrivial','counters','maxima','violations_total','violations_by_signature','coverage_fail','inconclusive']})
for v in d['violations'][:int(sys.argv[2]) if len(sys.argv)>2 else 6]: print('--',v['signature'],'\n    ',v['detail'][:500])
