#!/bin/bash
# usage: sweep.sh "<props>" "<seeds>"
cd /verif
for p in $1; do for sd in $2; do out=$(VERIF_SEED=$sd ./vcheck run $p quick 2>&1); rc=$?; [ $rc -ne 0 ] && echo "$p seed=$sd rc=$rc :: $(echo "$out" | grep -E 'violation:|INCONCLUSIVE|coverage' | head -3 | cut -c1-300)"; done; echo "$p done"; done
