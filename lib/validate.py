#!/usr/bin/env python3
"""Validates MANIFEST.json and every evidence file against the schemas (run with python3-vt)."""
import json, glob, sys
import jsonschema
ok = True
jsonschema.validate(json.load(open('/verif/MANIFEST.json')), json.load(open('/root/.vp/MANIFEST.schema.json')))
print('manifest valid')
es = json.load(open('/root/.vp/EVIDENCE.schema.json'))
for p in sorted(glob.glob('/verif/evidence/*.json')):
    try:
        jsonschema.validate(json.load(open(p)), es)
        print('evidence valid', p)
    except Exception as e:
        ok = False
        print('INVALID', p, str(e)[:300])
sys.exit(0 if ok else 1)
